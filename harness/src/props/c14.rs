//! C14 — encoding respects the caller's buffer and the 64 KiB message limit.

use crate::codec::*;
use crate::gen::{arb_msg, GenOpts};
use crate::refcodec::*;
use crate::report::*;
use proptest::prelude::*;
use serde::{Deserialize, Serialize};
use serde_json::{json, Value};

pub const RULE: &str = "generated messages (C01 generator) encoded into every buffer length 0..=needed+8 (needed<=600; otherwise 0,19,20, \
needed-8..=needed+8 and sampled lengths) with buffers pre-filled 0x00/0xFF/pattern, compared with the reference encoding; plus enumerated \
size-targeted messages whose attribute bytes are 65500..=65532 and 65536..=65600 (every multiple of 4), ~70000, ~131080 and single attributes \
above 65535 bytes, in several shapes; one evaluation = one (message, buffer length) pair; non-trivial = buffer length within 8 of needed, or \
attribute bytes within 64 of 65535; distinct = hash of (message, buffer length)";

#[derive(Clone, Debug, Serialize, Deserialize)]
pub struct BufCase {
    pub msg: RMsg,
    pub prefill: u8,
    pub extra_lens: Vec<u32>,
}

fn fill(buf: &mut [u8], prefill: u8) {
    match prefill {
        0 => buf.fill(0),
        1 => buf.fill(0xFF),
        s => {
            for (i, b) in buf.iter_mut().enumerate() {
                *b = (i as u8).wrapping_mul(31) ^ s;
            }
        }
    }
}

fn expect_fill(i: usize, prefill: u8) -> u8 {
    match prefill {
        0 => 0,
        1 => 0xFF,
        s => (i as u8).wrapping_mul(31) ^ s,
    }
}

fn one_len(p: &Prepared, reference: &[u8], len: usize, prefill: u8) -> Result<(), String> {
    let n = reference.len();
    let mut buf = vec![0u8; len];
    fill(&mut buf, prefill);
    let r = match guard(|| lib_encode_into(&p.lib, &mut buf, None)) {
        Guard::Ok(r) => r,
        Guard::LibPanic(m) => return Err(format!("encode into {} bytes (needed {}) panicked: {}", len, n, m)),
        Guard::HarnessPanic(m) => return Err(format!("HARNESS-{}", m)),
    };
    match r {
        Ok(k) => {
            if len < n {
                return Err(format!("encode into {} bytes succeeded although {} are needed (returned {})", len, n, k));
            }
            if k != n {
                return Err(format!("returned size {} != needed {} (buffer {})", k, n, len));
            }
            if buf[..n] != reference[..] {
                let pos = buf[..n].iter().zip(reference).position(|(a, b)| a != b).unwrap();
                return Err(format!("bytes differ from reference at {} with buffer {} prefill {}", pos, len, prefill));
            }
            for i in n..len {
                if buf[i] != expect_fill(i, prefill) {
                    return Err(format!("byte {} beyond returned size {} was modified (buffer {})", i, n, len));
                }
            }
        }
        Err(e) => {
            if len >= n {
                return Err(format!("encode into {} bytes failed although {} suffice: {}", len, n, e));
            }
        }
    }
    Ok(())
}

pub fn check_buffer(c: &BufCase, st: &mut Stats) -> Result<(), String> {
    let p = match prepare(&c.msg) {
        Ok(p) => p,
        Err(e) => {
            st.class(&format!("rejected-by-constructor:{}", reject_class(&e)));
            return Ok(());
        }
    };
    let reference = ref_encode(&p.model, &mut Noise::zero()).bytes;
    let n = reference.len();
    let mut lens: Vec<usize> = Vec::new();
    if n <= 600 {
        lens.extend(0..=n + 8);
        st.class("sweep:exhaustive");
    } else {
        lens.extend([0usize, 1, 19, 20, 21, 24]);
        lens.extend(n - 8..=n + 8);
        lens.extend(c.extra_lens.iter().map(|x| (*x as usize) % (n + 64)));
        st.class("sweep:sampled");
    }
    // evaluations are counted per (message, length); the runner already counted one for the case itself
    st.evaluations += lens.len() as u64 - 1;
    for len in lens {
        one_len(&p, &reference, len, c.prefill)?;
        let d = len as i64 - n as i64;
        if (-8..=8).contains(&d) {
            st.class(&format!("offset-from-needed:{:+}", d));
            st.nontrivial(&(&p.model, len));
        }
    }
    st.class(&format!("prefill:{}", c.prefill.min(2)));
    if st.wants_sample() && p.model.attrs.len() >= 2 {
        let mut s = sample_msg(&p.model, &reference);
        s["needed"] = json!(n);
        s["prefill"] = json!(c.prefill);
        st.sample(s);
    }
    Ok(())
}

#[derive(Clone, Debug, Hash, Serialize, Deserialize)]
pub struct SizeCase {
    /// total attribute bytes aimed at (multiple of 4) — or the single value length for shape 3
    pub target: u32,
    /// 0 two DATA, 1 many empty attributes + DATA, 2 DATA + SOFTWARE + integrity/fingerprint tail, 3 single oversized DATA,
    /// 4 MOBILITY-TICKET, 5 PADDING, 6 PASSWORD-ALGORITHM, 7 PASSWORD-ALGORITHMS, 8 UNKNOWN-ATTRIBUTES of the target length
    pub shape: u8,
    pub slack: u32,
}

fn build_size(c: &SizeCase) -> RMsg {
    let t = c.target as usize;
    let data_for = |total: usize| -> RAttr {
        // attribute occupying exactly `total` bytes (header + value, value multiple of 4)
        RAttr::Data(vec![0xAB; total - 4])
    };
    let attrs = match c.shape {
        0 => vec![data_for(40000), data_for(t - 40000)],
        1 => {
            let mut v = vec![RAttr::UseCandidate; 1000];
            v.push(data_for(t - 4000 - 8));
            v.push(RAttr::DontFragment);
            v.push(RAttr::DontFragment);
            v
        }
        2 => {
            let key = KeySpec::ShortTerm("pw".into());
            // MI (24) + SHA256 (36) + FP (8) = 68, SOFTWARE(16 -> 20)
            vec![
                data_for(30000),
                RAttr::MobilityTicket(vec![1; t - 30000 - 68 - 20 - 4]),
                RAttr::Software("0123456789abcdef".into()),
                RAttr::Mi(MacSpec::Keyed {
                    key: key.clone(),
                    fault: Fault::Correct,
                }),
                RAttr::MiSha256(MacSpec::Keyed {
                    key,
                    fault: Fault::Correct,
                }),
                RAttr::Fp(FpSpec::Computed(Fault::Correct)),
            ]
        }
        3 => vec![RAttr::Priority(7), RAttr::Data(vec![0x5A; t])],
        // single large attribute of every kind whose constructor takes a value of unbounded size; for the
        // PASSWORD-ALGORITHM kinds `target` is the length of the parameters (inner 16-bit length field)
        4 => vec![RAttr::MobilityTicket(vec![0x5A; t])],
        5 => vec![RAttr::Padding("p".repeat(t))],
        6 => vec![RAttr::PasswordAlgorithm(RAlg { id: 2, params: vec![0x11; t] })],
        7 => vec![
            RAttr::Software("x".into()),
            RAttr::PasswordAlgorithms(vec![RAlg { id: 1, params: vec![] }, RAlg { id: 0x77, params: vec![0x22; t] }, RAlg { id: 2, params: vec![] }]),
        ],
        _ => vec![RAttr::UnknownAttributes((0..t / 2).map(|i| i as u16).collect())],
    };
    RMsg {
        method: 3,
        class: 0,
        tid: [0xC1; 12],
        attrs,
    }
}

/// value length (without attribute header and outer padding) of the attribute kinds used by the size cases
fn size_value_len(a: &RAttr) -> usize {
    let alg = |x: &RAlg| 4 + x.params.len() + (4 - x.params.len() % 4) % 4;
    match a {
        RAttr::Data(d) | RAttr::MobilityTicket(d) => d.len(),
        RAttr::Software(s) | RAttr::Padding(s) => s.len(),
        RAttr::Priority(_) => 4,
        RAttr::Mi(_) => 20,
        RAttr::MiSha256(_) => 32,
        RAttr::Fp(_) => 4,
        RAttr::PasswordAlgorithm(x) => alg(x),
        RAttr::PasswordAlgorithms(l) => l.iter().map(alg).sum(),
        RAttr::UnknownAttributes(v) => v.len() * 2,
        _ => 0,
    }
}

pub fn check_size(c: &SizeCase, st: &mut Stats) -> Result<(), String> {
    let msg = build_size(c);
    let lib = match crate::conv::to_lib_msg(&msg) {
        Ok(l) => l,
        Err(e) if c.shape >= 4 => {
            // the constructor of this kind has a limit of its own and refuses the value: nothing to encode
            let _ = e;
            st.class(&format!("shape:{}:constructor-refuses-length", c.shape));
            return Ok(());
        }
        Err(e) => return Err(format!("HARNESS-size case not constructible: {}", e)),
    };
    // size by arithmetic (the reference encoder is only run when the message fits)
    let attr_total: usize = msg
        .attrs
        .iter()
        .map(|a| {
            let l = size_value_len(a);
            4 + l + (4 - l % 4) % 4
        })
        .sum();
    let single_too_big = msg.attrs.iter().any(|a| {
        size_value_len(a) > 65535
            || match a {
                RAttr::PasswordAlgorithm(x) => x.params.len() > 65535,
                RAttr::PasswordAlgorithms(l) => l.iter().any(|x| x.params.len() > 65535),
                _ => false,
            }
    });
    let fits = attr_total <= 65535 && !single_too_big;
    st.class(&format!("shape:{}", c.shape));
    st.class(if fits { "fits-16-bit" } else { "exceeds-16-bit" });
    let d = attr_total as i64 - 65535;
    if d.abs() <= 64 {
        st.class(&format!("offset-from-65535:{:+}", d));
        st.nontrivial(c);
    }
    let buf_len = 20 + attr_total + c.slack as usize;
    let mut buf = vec![0xEEu8; buf_len];
    let r = match guard(|| lib_encode_into(&lib, &mut buf, None)) {
        Guard::Ok(r) => r,
        Guard::LibPanic(m) => {
            return Err(format!(
                "encoding a message with {} attribute bytes ({}) panicked: {}",
                attr_total,
                if fits { "fits the 16-bit length" } else { "does not fit" },
                m
            ))
        }
        Guard::HarnessPanic(m) => return Err(format!("HARNESS-{}", m)),
    };
    if fits {
        let k = r.map_err(|e| format!("message with {} attribute bytes fits the length field but was refused: {}", attr_total, e))?;
        let reference = ref_encode(&msg, &mut Noise::zero()).bytes;
        if k != reference.len() || k != 20 + attr_total {
            return Err(format!("returned size {} expected {}", k, 20 + attr_total));
        }
        if buf[..k] != reference[..] {
            let pos = buf[..k].iter().zip(&reference).position(|(a, b)| a != b).unwrap();
            return Err(format!("bytes differ from reference at {} (attribute bytes {})", pos, attr_total));
        }
        if buf[k..].iter().any(|b| *b != 0xEE) {
            return Err("bytes beyond the returned size were modified".into());
        }
        let (m, consumed) = lib_decode(&buf[..k], &DecOpts::plain()).map_err(|e| format!("decode of {}-byte message failed: {}", k, e))?;
        if consumed != k || m.attributes().len() != msg.attrs.len() {
            return Err(format!("round trip of {}-byte message: consumed {} attrs {}", k, consumed, m.attributes().len()));
        }
    } else if let Ok(k) = r {
        return Err(format!(
            "message with {} attribute bytes does not fit the 16-bit length field but encode returned Ok({}) with header length {}",
            attr_total,
            k,
            u16::from_be_bytes([buf[2], buf[3]])
        ));
    }
    if st.wants_sample() {
        st.sample(json!({"attribute_bytes": attr_total, "shape": c.shape, "fits": fits, "buffer": buf_len}));
    }
    Ok(())
}

pub fn size_cases(thorough: bool) -> Vec<SizeCase> {
    let mut v = Vec::new();
    let mut targets: Vec<u32> = Vec::new();
    targets.extend((65500u32..=65532).step_by(4));
    targets.extend((65536u32..=65600).step_by(4));
    targets.extend([65400, 65000, 69996, 70000, 131076, 131080, 200000]);
    if thorough {
        targets.extend((64000u32..65500).step_by(100));
        targets.extend((65604u32..66600).step_by(52));
    }
    for t in targets {
        for shape in 0u8..3 {
            for slack in [0u32, 8] {
                v.push(SizeCase { target: t, shape, slack });
            }
        }
    }
    for t in [65532u32, 65535, 65536, 65537, 70000, 131072] {
        v.push(SizeCase {
            target: t,
            shape: 3,
            slack: 16,
        });
    }
    // every value / parameter length around the 16-bit limits, for each kind with an unbounded constructor
    let mut lens: Vec<u32> = (65500u32..=65545).collect();
    lens.extend([32764, 32768, 65000, 70000, 131072]);
    for shape in 4u8..=8 {
        for t in &lens {
            for slack in [0u32, 16] {
                v.push(SizeCase { target: *t, shape, slack });
            }
        }
    }
    v
}

pub fn arb_case() -> impl Strategy<Value = BufCase> {
    (
        arb_msg(GenOpts {
            max_attrs: 8,
            ..GenOpts::default()
        }),
        prop_oneof![Just(0u8), Just(1u8), 2u8..=255],
        proptest::collection::vec(any::<u32>(), 16),
    )
        .prop_map(|(msg, prefill, extra_lens)| BufCase { msg, prefill, extra_lens })
}

pub fn run(ctx: &Ctx) -> RunResult {
    let mut rr = RunResult::new(RULE);
    rr.assumptions = vec![
        "on an encode error nothing is asserted about partially written bytes (the property is silent)".into(),
        "sizes are attribute bytes including padding; the largest message that fits has 65532 attribute bytes".into(),
    ];
    let sizes = size_cases(ctx.tier == Tier::Thorough);
    rr.absorb(run_enum(ctx, "size", &sizes, |c, st| check_size(c, st)));
    rr.absorb(run_prop(ctx, "buffer", ctx.pick(30_000, 300_000), arb_case, |c, st| check_buffer(c, st)));
    rr
}

pub fn replay(_ctx: &Ctx, check: &str, case: &Value) -> Result<(), String> {
    let mut st = Stats::default();
    match check {
        "buffer" => {
            let c: BufCase = serde_json::from_value(case.clone()).map_err(|e| format!("HARNESS-bad case: {}", e))?;
            guard_str(|| check_buffer(&c, &mut st))?
        }
        "size" => {
            let c: SizeCase = serde_json::from_value(case.clone()).map_err(|e| format!("HARNESS-bad case: {}", e))?;
            guard_str(|| check_size(&c, &mut st))?
        }
        _ => Err(format!("HARNESS-unknown check {}", check)),
    }
}
