//! C03 — untrusted bytes never crash the decoder, the client or the reassembler.

use crate::codec::*;
use crate::conv;
use crate::mutate::{self, Mutation};
use crate::props::c18::{arb_wild_msg, opts_of};
use crate::refcodec::*;
use crate::report::*;
use crate::sim::hgen::{arb_history, HistOpts};
use crate::sim::*;
use proptest::prelude::*;
use serde::{Deserialize, Serialize};
use serde_json::{json, Value};
use stun_agent::{StunPacketDecodedValue, StunPacketDecoder};
use stun_rs::attributes::stun::{Fingerprint, MessageIntegrity, MessageIntegritySha256};

pub const RULE: &str = "decoder: reference encodings of generated messages (all kinds, unknown types, integrity/fingerprint anywhere) with 1-3 \
structure-aware mutations (bit flips, truncation at TLV boundaries, header/attribute/nested length edits, multi-byte UTF-8 / quoting / control \
characters injected or overwritten at chosen offsets of attribute values, duplicated/swapped/removed/re-typed/inserted attributes, junk) and pure \
random byte strings up to 64 KiB, each under all 16 option combinations plus the context-less decoder; client: histories dominated by garbage and \
mutated replies (addressed to outstanding transactions, half with a recomputed FINGERPRINT, including 401/438 with damaged NONCE/REALM/PASSWORD-ALGORITHMS) \
against clients with every mechanism, fingerprint setting and 0-8 outstanding requests, followed by a fresh exchange that must still complete; \
reassembler: mutated streams in generated chunkings; one evaluation = one input or history; non-trivial = the input passes the STUN header check \
(magic cookie, top bits, length within the buffer) so that it reaches attribute decoding; distinct = hash of the input / history";

#[derive(Clone, Debug, Serialize, Deserialize)]
pub enum DecCase {
    Mutated { msg: RMsg, muts: Vec<Mutation> },
    Random(Vec<u8>),
    /// random body behind a valid header of consistent length
    Framed { mtype: u16, body: Vec<u8> },
}

pub fn dec_bytes(c: &DecCase) -> Vec<u8> {
    match c {
        DecCase::Mutated { msg, muts } => {
            let enc = ref_encode(msg, &mut Noise::zero());
            mutate::apply(&enc.bytes, &enc.tlv, muts)
        }
        DecCase::Random(b) => b.clone(),
        DecCase::Framed { mtype, body } => {
            let mut b = body.clone();
            while b.len() % 4 != 0 {
                b.push(0);
            }
            let mut out = Vec::with_capacity(20 + b.len());
            out.extend_from_slice(&(mtype & 0x3FFF).to_be_bytes());
            out.extend_from_slice(&(b.len().min(65535) as u16).to_be_bytes());
            out.extend_from_slice(&MAGIC.to_be_bytes());
            out.extend_from_slice(&[0x42; 12]);
            out.extend_from_slice(&b);
            out
        }
    }
}

/// Hang detection for the "terminates" clause: every decoder case publishes its input; a monitor thread turns an
/// input that has been running for more than 30 s into a violation with a replay file (a hang cannot be unwound).
static IN_FLIGHT: std::sync::Mutex<Vec<(std::thread::ThreadId, std::time::Instant, Vec<u8>)>> = std::sync::Mutex::new(Vec::new());

fn publish(bytes: Option<&[u8]>) {
    let id = std::thread::current().id();
    if let Ok(mut v) = IN_FLIGHT.lock() {
        v.retain(|e| e.0 != id);
        if let Some(b) = bytes {
            v.push((id, std::time::Instant::now(), b.to_vec()));
        }
    }
}

pub fn start_hang_monitor(verif_dir: std::path::PathBuf) {
    std::thread::spawn(move || loop {
        std::thread::sleep(std::time::Duration::from_secs(2));
        let stuck = IN_FLIGHT
            .lock()
            .ok()
            .and_then(|v| v.iter().find(|e| e.1.elapsed().as_secs() >= 30).map(|e| e.2.clone()));
        if let Some(bytes) = stuck {
            let dir = verif_dir.join("replays");
            let _ = std::fs::create_dir_all(&dir);
            let path = dir.join(format!("C03-hang-{:016x}.json", hash_of(&bytes)));
            let body = json!({"property": "C03", "check": "decode-bytes", "reason": "decoding did not terminate within 30 s", "case": hex(&bytes)});
            let _ = std::fs::write(&path, serde_json::to_string_pretty(&body).unwrap());
            println!("reason: decoding {} bytes did not terminate within 30 s", bytes.len());
            println!("VIOLATION property=C03 replay={}", path.display());
            std::process::exit(1);
        }
    });
}

/// The decoder contract on one input; shared with the fuzz target.
pub fn check_decode_bytes(bytes: &[u8], st: &mut Stats) -> Result<(), String> {
    publish(Some(bytes));
    let r = check_decode_bytes_inner(bytes, st);
    publish(None);
    r
}

fn check_decode_bytes_inner(bytes: &[u8], st: &mut Stats) -> Result<(), String> {
    let key = conv::lib_key(&KeySpec::ShortTerm("wild-pass".into())).map_err(|e| format!("HARNESS-{}", e))?;
    let header_ok = matches!(ref_header(bytes), Ok((_, l, _)) if 20 + l as usize <= bytes.len());
    if header_ok {
        st.nontrivial(&bytes);
        st.class("stage:passes-header-check");
    } else {
        st.class("stage:dies-in-header-check");
    }
    let mut any_ok = false;
    for b in 0u8..17 {
        let o = if b == 16 { DecOpts::plain() } else { opts_of(b, &key) };
        let r = match guard(|| lib_decode(bytes, &o)) {
            Guard::Ok(r) => r,
            Guard::LibPanic(m) => return Err(format!("[{}] decoding {} bytes panicked: {}", o.name(), bytes.len(), m)),
            Guard::HarnessPanic(m) => return Err(format!("HARNESS-{}", m)),
        };
        if let Ok((m, n)) = r {
            any_ok = true;
            if bytes.len() < 20 {
                return Err(format!("[{}] decoded a message from {} bytes", o.name(), bytes.len()));
            }
            let l = u16::from_be_bytes([bytes[2], bytes[3]]) as usize;
            if n != 20 + l || n > bytes.len() {
                return Err(format!("[{}] reported size {} but 20+header length is {} (input {} bytes)", o.name(), n, 20 + l, bytes.len()));
            }
            let repr = format!("{:?}", m);
            // the result depends only on the first n bytes
            for variant in 0..2 {
                let alt: Vec<u8> = if variant == 0 {
                    bytes[..n].to_vec()
                } else {
                    let mut v = bytes[..n].to_vec();
                    v.extend_from_slice(&[0xFF, 0x00, 0x21, 0x12, 0xA4, 0x42, 0x99]);
                    v
                };
                match guard(|| lib_decode(&alt, &o)) {
                    Guard::Ok(Ok((m2, n2))) => {
                        if n2 != n || format!("{:?}", m2) != repr {
                            return Err(format!("[{}] decoding the first {} bytes {} gives a different result", o.name(), n, if variant == 0 { "alone" } else { "followed by other bytes" }));
                        }
                    }
                    Guard::Ok(Err(e)) => return Err(format!("[{}] the first {} bytes {} fail to decode: {}", o.name(), n, if variant == 0 { "alone" } else { "followed by other bytes" }, e)),
                    Guard::LibPanic(m) => return Err(format!("[{}] panicked: {}", o.name(), m)),
                    Guard::HarnessPanic(m) => return Err(format!("HARNESS-{}", m)),
                }
            }
        }
    }
    if any_ok {
        st.class("stage:decoded-under-some-option");
    } else if header_ok {
        st.class("stage:rejected-after-header");
    }
    for which in 0..3 {
        let r = guard(|| match which {
            0 => stun_rs::get_input_text::<MessageIntegrity>(bytes).map(|v| v.len()),
            1 => stun_rs::get_input_text::<MessageIntegritySha256>(bytes).map(|v| v.len()),
            _ => stun_rs::get_input_text::<Fingerprint>(bytes).map(|v| v.len()),
        });
        match r {
            Guard::Ok(Some(n)) if n > bytes.len() => return Err("get_input_text returned more bytes than the input".into()),
            Guard::Ok(_) => {}
            Guard::LibPanic(m) => return Err(format!("get_input_text panicked: {}", m)),
            Guard::HarnessPanic(m) => return Err(format!("HARNESS-{}", m)),
        }
    }
    Ok(())
}

pub fn check_dec(c: &DecCase, st: &mut Stats) -> Result<(), String> {
    let bytes = dec_bytes(c);
    match c {
        DecCase::Mutated { muts, .. } => {
            for m in muts {
                st.class(&format!("mut:{}", mutate::kind(m)));
            }
        }
        DecCase::Random(_) => st.class("input:random-bytes"),
        DecCase::Framed { .. } => st.class("input:random-body-behind-valid-header"),
    }
    st.class(&format!("size:{}", match bytes.len() { 0..=19 => "<20", 20..=100 => "20-100", 101..=1000 => "101-1000", 1001..=10000 => "1k-10k", _ => ">10k" }));
    check_decode_bytes(&bytes, st)?;
    if st.wants_sample() && matches!(c, DecCase::Mutated { .. }) && bytes.len() > 40 {
        st.sample(json!({"input_len": bytes.len(), "hex_prefix": hex(&bytes[..48.min(bytes.len())]), "case": match c { DecCase::Mutated { muts, .. } => format!("{:?}", muts), _ => String::new() }}));
    }
    Ok(())
}

pub fn arb_dec() -> BoxedStrategy<DecCase> {
    prop_oneof![
        8 => (arb_wild_msg(), mutate::arb_mutations()).prop_map(|(msg, muts)| DecCase::Mutated { msg, muts }),
        1 => proptest::collection::vec(any::<u8>(), 0..64).prop_map(DecCase::Random),
        1 => (any::<u16>(), proptest::collection::vec(any::<u8>(), 0..200)).prop_map(|(mtype, body)| DecCase::Framed { mtype, body }),
        1 => (any::<u16>(), (0usize..65_000, any::<u64>())).prop_map(|(mtype, (n, seed))| {
            // large pseudo-random body (size-biased sampling keeps most cases small)
            let n = if seed % 8 == 0 { n } else { n % 2000 };
            let mut x = seed | 1;
            let body = (0..n)
                .map(|_| {
                    x ^= x << 13;
                    x ^= x >> 7;
                    x ^= x << 17;
                    (x >> 24) as u8
                })
                .collect();
            DecCase::Framed { mtype, body }
        }),
    ]
    .boxed()
}

/// Client half: hostile histories, then the client must still complete a fresh exchange.
pub fn check_client(h: &History, ctx: &Ctx, st: &mut Stats) -> Result<(), String> {
    let sim = run_history(h, &["C03"], ctx, st, false)?;
    let Some(mut sim) = sim else { return Ok(()) };
    super::hist::classify(h, &sim, st);
    let hostile = h.ops.iter().filter(|o| matches!(o, Op::DeliverRaw(_) | Op::DeliverMutated { .. })).count();
    if hostile > 0 && !sim.reqs.is_empty() {
        st.nontrivial(h);
    }
    // still usable?
    let usable = guard(|| -> Result<(), String> {
        let _ = sim.drain(&[0]);
        if sim.cfg.max_tx == 0 || sim.desync {
            return Ok(());
        }
        // the drain stops at the model's clock horizon (learned RTOs of days put deadlines beyond it); requests that
        // are then still awaiting occupy their slots legitimately, so the probe below would be refused for a reason
        // that has nothing to do with usability (whether every request reaches an outcome is C11's question)
        if !sim.awaiting().is_empty() {
            return Ok(());
        }
        let fp = if sim.cfg.fingerprint { FpMode::Valid } else { FpMode::Absent };
        let send = |sim: &mut Sim| -> Result<usize, String> {
            sim.now += 1_000_000_000;
            let n = sim.reqs.len();
            let _ = sim.step(&Op::Send { method: 1, attrs: vec![], small_buf: false });
            if sim.reqs.len() != n + 1 {
                return Err("after the hostile history a new request is refused although nothing is outstanding".into());
            }
            Ok(n)
        };
        let reply = |sim: &mut Sim, body: Body, auth: Auth| {
            sim.now += 5_000_000;
            let last = (sim.awaiting().len().max(1) - 1) as u8;
            let _ = sim.step(&Op::Deliver(Reply { target: Target::Outstanding(last), body, extra: 1, auth, fp: fp.clone(), dup: false, twist: 0 }));
        };
        match sim.cfg.mech.clone() {
            Mech::None | Mech::ShortTerm(_) => {
                let i = send(&mut sim)?;
                reply(&mut sim, Body::Success, Auth::ValidExpected);
                if sim.reqs[i].fin.map(|f| f.0) != Some(FinalKind::Delivered) {
                    return Err(format!("after the hostile history an authentic response is no longer delivered (outcome {:?})", sim.reqs[i].fin));
                }
            }
            Mech::LongTerm => {
                let i = send(&mut sim)?;
                reply(&mut sim, Body::Lt401 { algs: 0, anon: false, cookie: false, realm: 0, nonce: 5, drop_realm: false, drop_nonce: false }, Auth::None);
                if sim.reqs[i].fin.map(|f| f.0) != Some(FinalKind::Retry) {
                    return Err(format!("after the hostile history a 401 challenge no longer yields a retry (outcome {:?})", sim.reqs[i].fin));
                }
                let j = send(&mut sim)?;
                reply(&mut sim, Body::Success, Auth::ValidExpected);
                if sim.reqs[j].fin.map(|f| f.0) != Some(FinalKind::Delivered) {
                    return Err(format!("after the hostile history an authentic success response is no longer delivered (outcome {:?})", sim.reqs[j].fin));
                }
            }
        }
        Ok(())
    });
    match usable {
        Guard::Ok(r) => r.map_err(|e| format!("client does not remain usable: {}", e))?,
        Guard::LibPanic(m) => return Err(format!("client panicked in the follow-up exchange: {}", m)),
        Guard::HarnessPanic(m) => return Err(format!("HARNESS-{}", m)),
    }
    if st.wants_sample() && hostile > 0 && h.ops.len() <= 10 {
        st.sample(super::hist::sample_history(h, &sim));
    }
    Ok(())
}

fn client_opts() -> HistOpts {
    HistOpts { max_ops: 14, hostile: 8, deliver_weight: 5, timer_weight: 2, send_weight: 6, app_attrs: false, ..HistOpts::default() }
}

#[derive(Clone, Debug, Serialize, Deserialize)]
pub struct StreamCase {
    pub msgs: Vec<RMsg>,
    pub muts: Vec<Mutation>,
    pub cuts: Vec<u16>,
    pub buf: u16,
}

pub fn check_stream(c: &StreamCase, st: &mut Stats) -> Result<(), String> {
    let mut stream = Vec::new();
    for (i, m) in c.msgs.iter().enumerate() {
        let enc = ref_encode(m, &mut Noise::zero());
        if i == c.msgs.len() / 2 {
            stream.extend(mutate::apply(&enc.bytes, &enc.tlv, &c.muts));
        } else {
            stream.extend(enc.bytes);
        }
    }
    if ref_header(&stream).is_ok() {
        st.nontrivial(&(&stream, &c.cuts));
    }
    let buf_len = 20 + c.buf as usize % 1200;
    let r = guard(|| -> Result<(), String> {
        let mut dec = StunPacketDecoder::new(super::c16::mk_buf(buf_len, 3)).map_err(|_| "HARNESS-buffer refused".to_string())?;
        let mut pos = 0usize;
        let mut ci = 0usize;
        let mut last_empty = false;
        while pos < stream.len() {
            let mut clen = if c.cuts.is_empty() { stream.len() } else { (c.cuts[ci % c.cuts.len()] as usize % 97).min(stream.len() - pos) };
            // empty chunks are allowed, but never two in a row (progress)
            if clen == 0 && last_empty {
                clen = 1;
            }
            last_empty = clen == 0;
            ci += 1;
            let chunk = &stream[pos..pos + clen];
            pos += clen;
            let mut off = 0;
            loop {
                match dec.decode(&chunk[off..]) {
                    Ok(StunPacketDecodedValue::Decoded((p, consumed))) => {
                        if consumed > chunk.len() - off || p.len() > buf_len || p.len() < 20 {
                            return Err(format!("decoded packet of {} bytes, consumed {} of {}", p.len(), consumed, chunk.len() - off));
                        }
                        off += consumed;
                        dec = StunPacketDecoder::new(super::c16::mk_buf(buf_len, 3)).map_err(|_| "HARNESS-buffer refused".to_string())?;
                        if off >= chunk.len() {
                            break;
                        }
                    }
                    Ok(StunPacketDecodedValue::MoreBytesNeeded((d, _))) => {
                        dec = d;
                        break;
                    }
                    Err(e) => {
                        if e.buffer.len() != buf_len || e.consumed > chunk.len() - off {
                            return Err(format!("error hands back a buffer of {} bytes (gave {}), consumed {}", e.buffer.len(), buf_len, e.consumed));
                        }
                        // remains usable: the buffer can be used for a new decoder
                        let _ = StunPacketDecoder::new(e.buffer).map_err(|_| "buffer handed back is refused by a new decoder".to_string())?;
                        return Ok(());
                    }
                }
            }
        }
        Ok(())
    });
    match r {
        Guard::Ok(r) => r,
        Guard::LibPanic(m) => Err(format!("reassembler panicked: {}", m)),
        Guard::HarnessPanic(m) => Err(format!("HARNESS-{}", m)),
    }
}

pub fn arb_stream() -> BoxedStrategy<StreamCase> {
    (
        proptest::collection::vec(arb_wild_msg(), 1..=3),
        mutate::arb_mutations(),
        proptest::collection::vec(any::<u16>(), 0..8),
        any::<u16>(),
    )
        .prop_map(|(msgs, muts, cuts, buf)| StreamCase { msgs, muts, cuts, buf })
        .boxed()
}

pub fn run(ctx: &Ctx) -> RunResult {
    let mut rr = RunResult::new(RULE);
    rr.assumptions = vec![
        "a panic is attributed to the library when its source location is outside the harness".into(),
        "'remain usable' = after the history and a timer drain a fresh request is accepted and an authentic reply (for long-term: a 401 then an authentic success) completes".into(),
        "termination is observed as the call returning; hangs would surface as the run not finishing (reported as inconclusive by the caller's timeout)".into(),
    ];
    start_hang_monitor(ctx.verif_dir.clone());
    rr.absorb(run_prop(ctx, "decode", ctx.pick(400_000, 4_000_000), arb_dec, |c, st| check_dec(c, st)));
    let o = client_opts();
    rr.absorb(run_prop(ctx, "client", ctx.pick(100_000, 1_000_000), move || arb_history(o.clone()), |h, st| check_client(h, ctx, st)));
    rr.absorb(run_prop(ctx, "stream", ctx.pick(100_000, 1_000_000), arb_stream, |c, st| check_stream(c, st)));
    rr
}

pub fn replay(ctx: &Ctx, check: &str, case: &Value) -> Result<(), String> {
    let mut st = Stats::default();
    macro_rules! de {
        ($t:ty) => {
            serde_json::from_value::<$t>(case.clone()).map_err(|e| format!("HARNESS-bad case: {}", e))?
        };
    }
    match check {
        "decode" => {
            let c = de!(DecCase);
            guard_str(|| check_dec(&c, &mut st))?
        }
        "decode-bytes" => {
            let b = unhex(case.as_str().unwrap_or(""));
            guard_str(|| check_decode_bytes(&b, &mut st))?
        }
        "client" => {
            let h = de!(History);
            guard_str(|| check_client(&h, ctx, &mut st))?
        }
        "stream" => {
            let c = de!(StreamCase);
            guard_str(|| check_stream(&c, &mut st))?
        }
        _ => Err(format!("HARNESS-unknown check {}", check)),
    }
}
