//! Conversions between the reference model (`RMsg`/`RAttr`) and the library's types, using only the
//! library's public constructors and accessors.

use crate::refcodec::*;
use enumflags2::BitFlags;
use std::net::{IpAddr, Ipv4Addr, Ipv6Addr, SocketAddr};
use stun_rs::attributes::discovery::{ChangeRequest, ChangeRequestFlags, OtherAddress, Padding, ResponseOrigin, ResponsePort};
use stun_rs::attributes::ice::{IceControlled, IceControlling, Priority, UseCandidate};
use stun_rs::attributes::mobility::MobilityTicket;
use stun_rs::attributes::stun::*;
use stun_rs::attributes::turn::*;
use stun_rs::{
    AddressFamily, Algorithm, AlgorithmId, HMACKey, MessageClass, MessageMethod, StunAttribute, StunMessage,
    StunMessageBuilder, TransactionId,
};

pub fn sock(a: &RAddr) -> SocketAddr {
    match a {
        RAddr::V4(ip, p) => SocketAddr::new(IpAddr::V4(Ipv4Addr::from(*ip)), *p),
        RAddr::V6(ip, p) => SocketAddr::new(IpAddr::V6(Ipv6Addr::from(*ip)), *p),
    }
}

pub fn raddr(s: &SocketAddr) -> RAddr {
    match s.ip() {
        IpAddr::V4(ip) => RAddr::V4(ip.octets(), s.port()),
        IpAddr::V6(ip) => RAddr::V6(ip.octets(), s.port()),
    }
}

pub fn class_of(c: u8) -> MessageClass {
    match c & 3 {
        0 => MessageClass::Request,
        1 => MessageClass::Indication,
        2 => MessageClass::SuccessResponse,
        _ => MessageClass::ErrorResponse,
    }
}

pub fn class_num(c: MessageClass) -> u8 {
    match c {
        MessageClass::Request => 0,
        MessageClass::Indication => 1,
        MessageClass::SuccessResponse => 2,
        MessageClass::ErrorResponse => 3,
    }
}

fn family(f: u8) -> Result<AddressFamily, String> {
    match f {
        1 => Ok(AddressFamily::IPv4),
        2 => Ok(AddressFamily::IPv6),
        _ => Err("family not constructible".into()),
    }
}

fn family_num(f: AddressFamily) -> u8 {
    match f {
        AddressFamily::IPv4 => 1,
        AddressFamily::IPv6 => 2,
    }
}

/// a caller-side type that is `AsRef<IpAddr>` (std's own IpAddr is not), for the constructor route "family of an address"
pub struct AddrRef(pub std::net::IpAddr);
impl AsRef<std::net::IpAddr> for AddrRef {
    fn as_ref(&self) -> &std::net::IpAddr {
        &self.0
    }
}

pub fn lib_alg(a: &RAlg) -> Algorithm {
    if a.params.is_empty() {
        Algorithm::from(AlgorithmId::from(a.id))
    } else {
        Algorithm::new(AlgorithmId::from(a.id), a.params.as_slice())
    }
}

pub fn ralg(id: AlgorithmId, params: Option<&[u8]>) -> RAlg {
    RAlg {
        id: u16::from(id),
        params: params.map(|p| p.to_vec()).unwrap_or_default(),
    }
}

pub fn lib_key(k: &KeySpec) -> Result<HMACKey, String> {
    match k {
        KeySpec::ShortTerm(p) => HMACKey::new_short_term(p).map_err(|e| format!("key: {}", e)),
        KeySpec::LongTerm {
            user,
            realm,
            password,
            alg,
        } => HMACKey::new_long_term(user.as_str(), realm.as_str(), password.as_str(), Algorithm::from(AlgorithmId::from(*alg)))
            .map_err(|e| format!("key: {}", e)),
        KeySpec::Raw(_) => Err("raw keys are not constructible".into()),
    }
}

/// Model attribute -> library attribute through public constructors.  Err = the constructor (the arbiter of
/// "within documented limits") refused it, or the model value has no public constructor.
pub fn to_lib(a: &RAttr) -> Result<StunAttribute, String> {
    let e = |x: stun_rs::StunError| format!("constructor: {}", x);
    // values are built through ALL public constructors and conversions of their type, chosen by a cheap function of the
    // value itself (so that a replay builds the same way): "a message that can be built from the library's types"
    let route = |n: usize, k: usize| (n.wrapping_mul(2654435761) >> 7) % k;
    Ok(match a {
        RAttr::MappedAddress(x) => MappedAddress::from(sock(x)).into(),
        RAttr::AlternateServer(x) => AlternateServer::from(sock(x)).into(),
        RAttr::OtherAddress(x) => OtherAddress::from(sock(x)).into(),
        RAttr::ResponseOrigin(x) => ResponseOrigin::from(sock(x)).into(),
        RAttr::XorMappedAddress(x) => XorMappedAddress::from(sock(x)).into(),
        RAttr::XorPeerAddress(x) => XorPeerAddress::from(sock(x)).into(),
        RAttr::XorRelayedAddress(x) => XorRelayedAddress::from(sock(x)).into(),
        RAttr::UserName(s) => match route(s.len(), 4) {
            0 => UserName::new(s),
            1 => UserName::try_from(s.as_str()),
            2 => UserName::try_from(s),
            _ => UserName::try_from(s.clone()),
        }
        .map_err(e)?
        .into(),
        RAttr::Realm(s) => match route(s.len(), 4) {
            0 => Realm::new(s),
            1 => Realm::try_from(s.as_str()),
            2 => Realm::try_from(s),
            _ => Realm::try_from(s.clone()),
        }
        .map_err(e)?
        .into(),
        RAttr::Nonce(s) => match route(s.len(), 4) {
            0 => Nonce::new(s),
            1 => Nonce::try_from(s.as_str()),
            2 => Nonce::try_from(s),
            _ => Nonce::try_from(s.clone()),
        }
        .map_err(e)?
        .into(),
        RAttr::Software(s) => match route(s.len(), 2) {
            0 => Software::new(s.as_str()),
            _ => Software::try_from(s.as_str()),
        }
        .map_err(e)?
        .into(),
        RAttr::Padding(s) => Padding::new(s.as_str()).map_err(e)?.into(),
        RAttr::ErrorCode { code, reason } => {
            if reason.len() > 509 {
                return Err("reason beyond documented limit".into());
            }
            let ec = stun_rs::ErrorCode::new(*code, reason).map_err(e)?;
            match route(reason.len() + *code as usize, 2) {
                0 => ErrorCode::new(ec),
                _ => ErrorCode::from(ec),
            }
            .into()
        }
        RAttr::UnknownAttributes(v) => match route(v.len(), 2) {
            0 => UnknownAttributes::from(v.as_slice()),
            _ => {
                let mut u = UnknownAttributes::default();
                for t in v {
                    u.add(*t);
                }
                u
            }
        }
        .into(),
        RAttr::UserHash(UserHashSpec::Names { user, realm }) => UserHash::new(user, realm).map_err(e)?.into(),
        RAttr::UserHash(UserHashSpec::Bytes(_)) => return Err("no public constructor from bytes".into()),
        RAttr::PasswordAlgorithm(alg) => PasswordAlgorithm::new(lib_alg(alg)).into(),
        RAttr::PasswordAlgorithms(list) => match route(list.len(), 2) {
            0 => PasswordAlgorithms::from(list.iter().map(|a| PasswordAlgorithm::new(lib_alg(a))).collect::<Vec<_>>()),
            _ => {
                let mut p = PasswordAlgorithms::default();
                for a in list {
                    p.add(PasswordAlgorithm::new(lib_alg(a)));
                }
                p
            }
        }
        .into(),
        RAttr::IceControlled(x) => IceControlled::new(*x).into(),
        RAttr::IceControlling(x) => IceControlling::new(*x).into(),
        RAttr::Priority(x) => Priority::new(*x).into(),
        RAttr::UseCandidate => UseCandidate::default().into(),
        RAttr::ChannelNumber(x) => ChannelNumber::new(*x).into(),
        RAttr::LifeTime(x) => LifeTime::new(*x).into(),
        RAttr::Data(d) => match route(d.len(), 3) {
            0 => Data::new(d),
            1 => Data::from(d.as_slice()),
            _ => Data::from(d.clone()),
        }
        .into(),
        // three routes: new(family), From<AddressFamily>, and From<T: AsRef<IpAddr>> (the family of an address)
        RAttr::RequestedAddressFamily(f) => match *f {
            1 => RequestedAddressFamily::new(family(*f)?),
            2 => RequestedAddressFamily::from(AddrRef(std::net::IpAddr::V6(std::net::Ipv6Addr::LOCALHOST))),
            _ => RequestedAddressFamily::new(family(*f)?),
        }
        .into(),
        RAttr::AdditionalAddressFamily(f) => match *f {
            1 => AdditionalAddressFamily::from(AddrRef(std::net::IpAddr::V4(std::net::Ipv4Addr::LOCALHOST))),
            2 => AdditionalAddressFamily::from(AddrRef(std::net::IpAddr::V6(std::net::Ipv6Addr::UNSPECIFIED))),
            _ => AdditionalAddressFamily::new(family(*f)?),
        }
        .into(),
        RAttr::EvenPort(r) => if *r { EvenPort::new(*r) } else { EvenPort::from(*r) }.into(),
        RAttr::DontFragment => DontFragment::default().into(),
        RAttr::RequestedTransport(p) => match *p {
            17 => RequestedTrasport::new(stun_rs::protocols::UDP).into(),
            0 => RequestedTrasport::new(stun_rs::protocols::ProtocolNumber::default()).into(),
            _ => return Err("protocol number not publicly constructible".into()),
        },
        RAttr::ReservationToken(t) => if t[0] & 1 == 0 { ReservationToken::from(*t) } else { ReservationToken::from(t) }.into(),
        RAttr::AddressErrorCode { family: f, code, reason } => {
            if reason.len() > 509 {
                return Err("reason beyond documented limit".into());
            }
            AddressErrorCode::new(family(*f)?, stun_rs::ErrorCode::new(*code, reason).map_err(e)?).into()
        }
        RAttr::Icmp { typ, code, data } => Icmp::new(
            IcmpType::new(*typ).ok_or("icmp type out of range")?,
            IcmpCode::new(*code).ok_or("icmp code out of range")?,
            *data,
        )
        .into(),
        RAttr::MobilityTicket(d) => match route(d.len(), 2) {
            0 => MobilityTicket::new(d),
            _ => MobilityTicket::from(d.as_slice()),
        }
        .into(),
        RAttr::ChangeRequest { ip, port } => {
            let mut f = BitFlags::<ChangeRequestFlags>::empty();
            if *ip {
                f |= ChangeRequestFlags::ChangeIp;
            }
            if *port {
                f |= ChangeRequestFlags::ChangePort;
            }
            ChangeRequest::new(if f.is_empty() { None } else { Some(f) }).into()
        }
        RAttr::ResponsePort(p) => ResponsePort::new(*p).into(),
        RAttr::Raw { .. } => return Err("unknown attributes cannot be encoded".into()),
        RAttr::Mi(MacSpec::Keyed { key, fault: Fault::Correct }) => MessageIntegrity::new(lib_key(key)?).into(),
        RAttr::MiSha256(MacSpec::Keyed { key, fault: Fault::Correct }) => {
            MessageIntegritySha256::new(lib_key(key)?).into()
        }
        RAttr::Fp(FpSpec::Computed(Fault::Correct)) => Fingerprint::default().into(),
        RAttr::Mi(_) | RAttr::MiSha256(_) | RAttr::Fp(_) => {
            return Err("faulty/wire verifiable attributes are reference-encoder only".into())
        }
    })
}

/// Application-supplied attributes may also be the *decoded* variants of the verifiable attributes (copied from a received
/// message): they cannot be encoded themselves and must be replaced by the client's own where the client owns the type.
pub fn to_lib_app(a: &RAttr) -> Result<StunAttribute, String> {
    match a {
        RAttr::Fp(FpSpec::Wire(v)) if v.len() == 4 => Ok(Fingerprint::from(<[u8; 4]>::try_from(v.as_slice()).unwrap()).into()),
        RAttr::Mi(MacSpec::Wire(v)) if v.len() == 20 => Ok(MessageIntegrity::from(<[u8; 20]>::try_from(v.as_slice()).unwrap()).into()),
        RAttr::MiSha256(MacSpec::Wire(v)) if v.len() == 32 => {
            Ok(MessageIntegritySha256::from(<[u8; 32]>::try_from(v.as_slice()).unwrap()).into())
        }
        _ => to_lib(a),
    }
}

pub fn to_lib_msg(m: &RMsg) -> Result<StunMessage, String> {
    let method = MessageMethod::try_from(m.method).map_err(|e| format!("method: {}", e))?;
    let mut b = StunMessageBuilder::new(method, class_of(m.class));
    if m.tid[11] & 1 == 1 {
        // a template builder whose id is overridden: the id given last is the message's
        let mut other = m.tid;
        other[0] ^= 0x5A;
        b = b.with_transaction_id(TransactionId::from(other));
    }
    b = b.with_transaction_id(if m.tid[10] & 1 == 0 { TransactionId::from(m.tid) } else { TransactionId::from(&m.tid) });
    for a in &m.attrs {
        b = b.with_attribute(to_lib(a)?);
    }
    Ok(b.build())
}

/// Library attribute -> model through public accessors.  The three verifiable attributes come back as
/// `Wire(empty)` because the library exposes no accessor for their value; compare them with `lib_wire_eq`.
pub fn from_lib(a: &StunAttribute) -> RAttr {
    match a {
        StunAttribute::Unknown(u) => RAttr::Raw {
            typ: u.attribute_type().as_u16(),
            value: u.attribute_data().map(|d| d.to_vec()).unwrap_or_default(),
        },
        StunAttribute::AlternateServer(x) => RAttr::AlternateServer(raddr(x.socket_address())),
        StunAttribute::ErrorCode(x) => RAttr::ErrorCode {
            code: x.error_code().error_code(),
            reason: x.error_code().reason().to_string(),
        },
        StunAttribute::Fingerprint(_) => RAttr::Fp(FpSpec::Wire(vec![])),
        StunAttribute::MappedAddress(x) => RAttr::MappedAddress(raddr(x.socket_address())),
        StunAttribute::MessageIntegrity(_) => RAttr::Mi(MacSpec::Wire(vec![])),
        StunAttribute::MessageIntegritySha256(_) => RAttr::MiSha256(MacSpec::Wire(vec![])),
        StunAttribute::Nonce(x) => RAttr::Nonce(x.as_str().to_string()),
        StunAttribute::PasswordAlgorithm(x) => RAttr::PasswordAlgorithm(ralg(x.algorithm(), x.parameters())),
        StunAttribute::PasswordAlgorithms(x) => {
            RAttr::PasswordAlgorithms(x.iter().map(|a| ralg(a.algorithm(), a.parameters())).collect())
        }
        StunAttribute::Realm(x) => RAttr::Realm(x.as_str().to_string()),
        StunAttribute::Software(x) => RAttr::Software(x.as_str().to_string()),
        StunAttribute::UnknownAttributes(x) => RAttr::UnknownAttributes(x.attributes().to_vec()),
        StunAttribute::UserHash(x) => RAttr::UserHash(UserHashSpec::Bytes(x.hash().to_vec())),
        StunAttribute::UserName(x) => RAttr::UserName(x.as_str().to_string()),
        StunAttribute::XorMappedAddress(x) => RAttr::XorMappedAddress(raddr(x.socket_address())),
        StunAttribute::IceControlled(x) => RAttr::IceControlled(x.as_u64()),
        StunAttribute::IceControlling(x) => RAttr::IceControlling(x.as_u64()),
        StunAttribute::Priority(x) => RAttr::Priority(x.as_u32()),
        StunAttribute::UseCandidate(_) => RAttr::UseCandidate,
        StunAttribute::ChannelNumber(x) => RAttr::ChannelNumber(x.number()),
        StunAttribute::LifeTime(x) => RAttr::LifeTime(x.as_u32()),
        StunAttribute::XorPeerAddress(x) => RAttr::XorPeerAddress(raddr(x.socket_address())),
        StunAttribute::XorRelayedAddress(x) => RAttr::XorRelayedAddress(raddr(x.socket_address())),
        StunAttribute::Data(x) => RAttr::Data(x.as_bytes().to_vec()),
        StunAttribute::RequestedAddressFamily(x) => RAttr::RequestedAddressFamily(family_num(x.family())),
        StunAttribute::EvenPort(x) => RAttr::EvenPort(x.reserve()),
        StunAttribute::DontFragment(_) => RAttr::DontFragment,
        StunAttribute::RequestedTrasport(x) => RAttr::RequestedTransport(x.protocol().as_u8()),
        StunAttribute::AdditionalAddressFamily(x) => RAttr::AdditionalAddressFamily(family_num(x.family())),
        StunAttribute::ReservationToken(x) => RAttr::ReservationToken(x.token().try_into().unwrap_or([0; 8])),
        StunAttribute::AddressErrorCode(x) => RAttr::AddressErrorCode {
            family: family_num(x.family()),
            code: x.error_code().error_code(),
            reason: x.error_code().reason().to_string(),
        },
        StunAttribute::Icmp(x) => RAttr::Icmp {
            typ: x.icmp_type().into(),
            code: x.icmp_code().into(),
            data: x.error_data().try_into().unwrap_or([0; 4]),
        },
        StunAttribute::MobilityTicket(x) => RAttr::MobilityTicket(x.value().to_vec()),
        StunAttribute::ChangeRequest(x) => RAttr::ChangeRequest {
            ip: x.flags().contains(ChangeRequestFlags::ChangeIp),
            port: x.flags().contains(ChangeRequestFlags::ChangePort),
        },
        StunAttribute::OtherAddress(x) => RAttr::OtherAddress(raddr(x.socket_address())),
        StunAttribute::Padding(x) => RAttr::Padding(x.as_str().to_string()),
        StunAttribute::ResponseOrigin(x) => RAttr::ResponseOrigin(raddr(x.socket_address())),
        StunAttribute::ResponsePort(x) => RAttr::ResponsePort(x.as_u16()),
    }
}

/// Is the decoded verifiable attribute equal to the one the library builds from these wire bytes?
pub fn lib_wire_eq(a: &StunAttribute, wire: &[u8]) -> bool {
    match a {
        StunAttribute::MessageIntegrity(x) => match <[u8; 20]>::try_from(wire) {
            Ok(b) => *x == MessageIntegrity::from(b),
            Err(_) => false,
        },
        StunAttribute::MessageIntegritySha256(x) => match <[u8; 32]>::try_from(wire) {
            Ok(b) => *x == MessageIntegritySha256::from(b),
            Err(_) => false,
        },
        StunAttribute::Fingerprint(x) => match <[u8; 4]>::try_from(wire) {
            Ok(b) => *x == Fingerprint::from(b),
            Err(_) => false,
        },
        _ => false,
    }
}

/// What decoding is expected to return for a model attribute that was encoded (value-level normal form).
pub fn expected_decoded(a: &RAttr, wire_value: &[u8]) -> RAttr {
    match a {
        RAttr::UserHash(UserHashSpec::Names { user, realm }) => {
            RAttr::UserHash(UserHashSpec::Bytes(user_hash_bytes(user, realm).to_vec()))
        }
        RAttr::UserName(s) => RAttr::UserName(ref_opaque(s)),
        RAttr::UnknownAttributes(v) => {
            let mut out: Vec<u16> = Vec::new();
            for t in v {
                if !out.contains(t) {
                    out.push(*t);
                }
            }
            RAttr::UnknownAttributes(out)
        }
        RAttr::Mi(_) => RAttr::Mi(MacSpec::Wire(wire_value.to_vec())),
        RAttr::MiSha256(_) => RAttr::MiSha256(MacSpec::Wire(wire_value.to_vec())),
        RAttr::Fp(_) => RAttr::Fp(FpSpec::Wire(wire_value.to_vec())),
        other => other.clone(),
    }
}

/// Compare one decoded library attribute with the expected model attribute.
pub fn attr_matches(lib: &StunAttribute, expected: &RAttr) -> Result<(), String> {
    match expected {
        RAttr::Mi(MacSpec::Wire(w)) | RAttr::MiSha256(MacSpec::Wire(w)) | RAttr::Fp(FpSpec::Wire(w)) => {
            let got = from_lib(lib);
            if got.type_code() != expected.type_code() {
                return Err(format!("kind {} != expected {}", got.kind_name(), expected.kind_name()));
            }
            if !lib_wire_eq(lib, w) {
                return Err(format!("{} value differs from wire bytes", expected.kind_name()));
            }
            Ok(())
        }
        _ => {
            let got = from_lib(lib);
            if &got == expected {
                Ok(())
            } else {
                Err(format!(
                    "decoded {:?} != expected {:?}",
                    crate::report::truncate(&format!("{:?}", got), 300),
                    crate::report::truncate(&format!("{:?}", expected), 300)
                ))
            }
        }
    }
}
