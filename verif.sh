#!/bin/bash
# ./verif.sh <ID> quick|thorough     run the check for one property (rebuilds from /repo's working tree)
# ./verif.sh <ID> --replay <file>    re-run the oracle on a saved failing case (no generators involved)
# exit 0 held / 1 violation (prints "VIOLATION property=<id> replay=<path>") / 2 inconclusive
set -u
ORIG_PWD="$PWD"
cd "$(dirname "$0")/harness" || exit 2
export CARGO_NET_OFFLINE=true
export VERIF_DIR="$(cd .. && pwd)"
BUILD_LOG="$(mktemp /tmp/rustun-verif-build.XXXXXX)"
if ! cargo build --profile verif --offline >"$BUILD_LOG" 2>&1; then
  cat "$BUILD_LOG" | tail -40
  rm -f "$BUILD_LOG"
  echo "INCONCLUSIVE: harness build failed (does /repo still compile?)"
  exit 2
fi
rm -f "$BUILD_LOG"
BIN=target/verif/rustun-verif
ID="$1"; shift
REL_BIN=target/verifrel/rustun-verif
# codec properties whose subject is the produced / accepted bytes are also decided against the library as a release build
# compiles it (profile verifrel: no debug assertions, no overflow checks); same generated cases, same oracles
second_pass() {
  # every property: a side effect inside debug_assert!, arithmetic that only wraps in release ... can sit anywhere
  if ! cargo build --profile verifrel --offline >"$BUILD_LOG.rel" 2>&1; then
    tail -20 "$BUILD_LOG.rel"; rm -f "$BUILD_LOG.rel"
    echo "INCONCLUSIVE: harness build (profile verifrel) failed"; return 2
  fi
  rm -f "$BUILD_LOG.rel"
  VERIF_SECOND_PASS=1 target/verifrel/rustun-verif "$ID" "$1" | sed 's/^\(C[0-9][0-9] \(HELD\|VIOLATED\)\)/release-profile pass: \1/'
  return ${PIPESTATUS[0]}
}
if [ "${1:-}" = "--replay" ]; then
  R="$2"; case "$R" in /*) ;; *) R="$ORIG_PWD/$R";; esac
  "$BIN" "$ID" --replay "$R"; rc=$?
  # a case found by the release-profile pass may only reproduce against that build
  case "$ID" in C??)
    if [ $rc -eq 0 ] && cargo build --profile verifrel --offline >/dev/null 2>&1; then
      "$REL_BIN" "$ID" --replay "$R" | sed 's/^REPLAY-PASS/REPLAY-PASS (release profile)/'; rc=${PIPESTATUS[0]}
    fi ;;
  esac
  exit $rc
fi
TIER="${1:-${VERIF_TIER:-quick}}"
# regression tier: committed minimal cases for this property are replayed first
for f in "$VERIF_DIR"/regress/"$ID"/*.json; do
  [ -e "$f" ] || continue
  "$BIN" "$ID" --replay "$f"
  rc=$?
  if [ $rc -ne 0 ]; then exit $rc; fi
done
if [ "$TIER" = "thorough" ] && [ -x "$VERIF_DIR/fuzz.sh" ]; then
  second_pass quick; rc=$?
  if [ $rc -ne 0 ]; then exit $rc; fi
  export VERIF_REL_PASS=held
  "$BIN" "$ID" thorough; rc=$?
  if [ $rc -ne 0 ]; then exit $rc; fi
  exec "$VERIF_DIR/fuzz.sh" "$ID"
fi
exec_main() { exec "$BIN" "$ID" "$1"; }
second_pass "$TIER"; rc=$?
if [ $rc -ne 0 ]; then exit $rc; fi
export VERIF_REL_PASS=held
exec_main "$TIER"
