//! One module per property; each exposes `run(&Ctx) -> RunResult` and `replay(&Ctx, check, case)`.
pub mod c01;

use crate::report::{Ctx, RunResult};
use serde_json::Value;

pub fn run(ctx: &Ctx) -> Option<RunResult> {
    match ctx.prop.as_str() {
        "C01" => Some(c01::run(ctx)),
        _ => None,
    }
}

pub fn replay(ctx: &Ctx, check: &str, case: &Value) -> Option<Result<(), String>> {
    match ctx.prop.as_str() {
        "C01" => Some(c01::replay(ctx, check, case)),
        _ => None,
    }
}
