//! One operation applied to the real client and to the tracker, with all tagged invariants.

use super::*;

pub const CLOCK_HORIZON: u64 = 1 << 50;

impl Sim {
    pub fn step(&mut self, op: &Op) -> Vec<Finding> {
        // the virtual clock stays below a horizon (about 13 days) so that the model's own schedule arithmetic cannot
        // overflow: RTO-relative advances grow the learned RTO, which grows the next advance, exponentially.  An
        // operation that would move the clock beyond the horizon is skipped as a whole (the clock never goes back).
        let before = self.now;
        match op {
            Op::Advance(_) | Op::AdvanceHalfRtos(_) => {
                let out = self.step_inner(op);
                if self.now > CLOCK_HORIZON {
                    self.now = before;
                }
                out
            }
            Op::Timer(k) => {
                let target = self.timer_target(k);
                if target > CLOCK_HORIZON {
                    return Vec::new();
                }
                self.step_inner(op)
            }
            _ => self.step_inner(op),
        }
    }

    /// the instant a Timer operation would call on_timeout at
    fn timer_target(&self, k: &TimerKind) -> u64 {
        match (k, self.min_expiry()) {
            (TimerKind::Exact, Some(e)) => self.now.max(e),
            (TimerKind::Early(d), Some(e)) => self.now.max(e.saturating_sub((*d).max(1))),
            (TimerKind::Late(d), Some(e)) => self.now.max(e.saturating_add(*d)),
            (TimerKind::LateHalfRtos(m), Some(e)) => {
                let rto = self.awaiting().iter().map(|i| &self.reqs[*i]).find(|r| r.expiry == e).map(|r| r.rto).unwrap_or(0);
                self.now.max(e.saturating_add((*m as u64).saturating_mul(rto / 2)))
            }
            _ => self.now,
        }
    }

    fn step_inner(&mut self, op: &Op) -> Vec<Finding> {
        match op {
            Op::Send { method, attrs, small_buf } => self.do_send(*method, attrs, *small_buf),
            Op::Indication { method, attrs } => self.do_indication(*method, attrs),
            Op::Advance(d) => {
                self.now = self.now.saturating_add(*d);
                Vec::new()
            }
            Op::AdvanceHalfRtos(m) => {
                let rto = self.reqs.last().map(|r| r.rto).unwrap_or(self.cfg.rto_us * 1000);
                self.now = self.now.saturating_add((*m as u64).saturating_mul(rto / 2));
                Vec::new()
            }
            Op::Timer(k) => {
                self.now = self.timer_target(k);
                self.do_timer(false)
            }
            Op::Deliver(r) => {
                let bytes = self.build_reply(r);
                let mut out = self.do_deliver(&bytes, true);
                if r.dup && out.is_empty() {
                    out = self.do_deliver(&bytes, true);
                }
                out
            }
            Op::DeliverRaw(b) => self.do_deliver(b, false),
            Op::DeliverMutated { reply, muts, fix_fp } => {
                let bytes = self.build_reply(reply);
                let tlv = ref_decode(&bytes)
                    .map(|w| {
                        w.attrs
                            .iter()
                            .map(|a| Tlv {
                                typ: a.typ,
                                hdr_off: a.hdr_off,
                                val_off: a.hdr_off + 4,
                                val_len: a.value.len(),
                                pad_len: a.pad_len,
                            })
                            .collect::<Vec<_>>()
                    })
                    .unwrap_or_default();
                let mut m = crate::mutate::apply(&bytes, &tlv, muts);
                if *fix_fp {
                    m = append_valid_fp(&m);
                }
                self.do_deliver(&m, false)
            }
        }
    }

    fn target_tid(&self, t: &Target) -> [u8; 12] {
        match t {
            Target::Outstanding(k) => {
                let a = self.awaiting();
                if a.is_empty() {
                    [0xEE; 12]
                } else {
                    self.reqs[a[*k as usize % a.len()]].tid
                }
            }
            Target::Finished(k) => {
                // ids the client has used and that no longer (or never) await a response:
                // finished requests and the client's own indications
                let mut pool: Vec<[u8; 12]> = self.finished().iter().map(|i| self.reqs[*i].tid).collect();
                pool.extend(self.ind_tids.iter().copied());
                if pool.is_empty() {
                    [0xDD; 12]
                } else {
                    pool[*k as usize % pool.len()]
                }
            }
            Target::Unknown(t) => *t,
        }
    }

    pub fn build_reply(&self, r: &Reply) -> Vec<u8> {
        let tid = self.target_tid(&r.target);
        let req = self.req_index(&tid).map(|i| &self.reqs[i]);
        let method = req.map(|q| q.method).unwrap_or(1);
        let (mut key, mut sha) = self.server_key_for(None);
        let mut attrs: Vec<RAttr> = Vec::new();
        // nonce-cookie feature bits (algorithms, anonymity) of the genuine NONCE of an error response
        let mut first_bits = (false, false);
        let class = match &r.body {
            Body::Success => 2,
            Body::Error(code) => {
                attrs.push(RAttr::ErrorCode {
                    code: 300 + code % 400,
                    reason: "error".into(),
                });
                3
            }
            Body::Lt401 {
                algs,
                anon,
                cookie,
                realm,
                nonce,
                drop_realm,
                drop_nonce,
            } => {
                let list = alg_list(*algs);
                let realm_s = REALMS[*realm as usize % REALMS.len()].to_string();
                attrs.push(RAttr::ErrorCode {
                    code: 401,
                    reason: "Unauthenticated".into(),
                });
                if !drop_realm {
                    attrs.push(RAttr::Realm(realm_s.clone()));
                }
                if !drop_nonce {
                    attrs.push(RAttr::Nonce(nonce_text(*nonce, *cookie, list.is_some(), *anon)));
                    if *cookie {
                        first_bits = (list.is_some(), *anon);
                    }
                }
                if let Some(l) = &list {
                    // twist bit 6: the cookie announces algorithms but the list is missing (what the client does then
                    // is outside the listed properties; whatever it does must keep the other invariants)
                    if !(r.twist & 64 != 0 && *cookie) {
                        attrs.push(RAttr::PasswordAlgorithms(l.clone()));
                    }
                }
                // a 401 that carries integrity is keyed with the key the new challenge implies
                let preferred = match &list {
                    Some(l) if l.iter().any(|a| a.id == 2) => 2,
                    _ => 1,
                };
                key = KeySpec::LongTerm {
                    user: ref_opaque(&self.cfg.user),
                    realm: realm_s,
                    password: self.cfg.password.clone(),
                    alg: preferred,
                }
                .key_bytes();
                sha = list.is_some();
                3
            }
            Body::Lt438 { nonce, drop_nonce } => {
                attrs.push(RAttr::ErrorCode {
                    code: 438,
                    reason: "Stale Nonce".into(),
                });
                if !drop_nonce {
                    let (a, u) = self
                        .lt_sess
                        .as_ref()
                        .map(|s| (s.algs.is_some(), s.anon))
                        .unwrap_or((false, false));
                    let cookie = self.lt_sess.as_ref().map(|s| s.nonce.starts_with("obMatJos2")).unwrap_or(false);
                    attrs.push(RAttr::Nonce(format!("{}-stale{}", nonce_text(*nonce, cookie, a, u), nonce)));
                    if cookie {
                        first_bits = (a, u);
                    }
                    if r.twist & 16 != 0 {
                        // a different list than the session's (the offer that counts is the one of the 401)
                        let cur = self.lt_sess.as_ref().and_then(|s| s.algs.clone());
                        let other = [vec![RAlg { id: 1, params: vec![] }], vec![RAlg { id: 2, params: vec![] }, RAlg { id: 1, params: vec![] }]];
                        let pick = if cur.as_ref() == Some(&other[0]) { other[1].clone() } else { other[0].clone() };
                        attrs.push(RAttr::PasswordAlgorithms(pick));
                    } else if a && r.twist & 64 == 0 {
                        // a conforming server keeps offering its algorithms together with the cookie bit
                        attrs.push(RAttr::PasswordAlgorithms(self.lt_sess.as_ref().unwrap().algs.clone().unwrap()));
                    }
                }
                3
            }
            Body::Indication => 1,
            Body::Request => 0,
        };
        if class == 3 {
            if r.twist & 1 != 0 {
                attrs.push(RAttr::Realm("second-realm.invalid".into()));
            }
            if r.twist & 2 != 0 {
                // the duplicate is either a plain nonce or a nonce cookie whose feature bits are the opposite of the
                // genuine one's (whoever reads the bits from the wrong NONCE picks the wrong identity attribute)
                attrs.push(RAttr::Nonce(if r.twist & 32 != 0 {
                    nonce_text(1, true, !first_bits.0, !first_bits.1)
                } else {
                    "second-nonce-value".into()
                }));
            }
            if r.twist & 4 != 0 {
                attrs.push(RAttr::ErrorCode { code: 420, reason: "second".into() });
            }
            if r.twist & 8 != 0 {
                attrs.push(RAttr::PasswordAlgorithms(vec![RAlg { id: 1, params: vec![] }]));
            }
        }
        for i in 0..(r.extra % 4) {
            attrs.push(match i {
                0 => RAttr::XorMappedAddress(RAddr::V4([192, 0, 2, 1], 32853)),
                1 => RAttr::Software("ref server".into()),
                _ => RAttr::LifeTime(600),
            });
        }
        let fp = r.fp.clone();
        if fp == FpMode::Misplaced && attrs.is_empty() && r.auth == Auth::None {
            attrs.push(RAttr::Software("x".into()));
        }
        build_message(method, class, tid, attrs, &key, &r.auth, sha, &fp)
    }

    fn do_send(&mut self, method: u16, app: &[RAttr], small_buf: bool) -> Vec<Finding> {
        let mut out = Vec::new();
        let before = self.snapshot();
        let awaiting = self.awaiting().len();
        let cred = self.cred_view();
        let attrs = Self::to_attrs(app);
        // the caller's buffer is dirty: whatever the client does not write shows up in the packet
        // a small buffer is one of several sizes around the header and the first attributes (selected by the method)
        let buf = vec![0xA5u8; if small_buf { [24usize, 0, 19, 20, 28, 60, 100, 23][method as usize % 8] } else { 8192 }];
        let r = self.client.send_request(method_of(method), attrs, buf, at(self.now));
        let events = convert_events(self.client.events());
        let after = self.snapshot();
        match r {
            Err(e) => {
                let max = is_max_outstanding(&e);
                if max {
                    self.refusals += 1;
                    if self.had_failure_final {
                        self.limit_hit_after_failure = true;
                    }
                }
                if max && awaiting != self.cfg.max_tx {
                    out.push(finding(
                        &["C12"],
                        format!(
                            "request refused with the maximum-outstanding error although {} of {} slots are in use (requests sent and not yet finished)",
                            awaiting, self.cfg.max_tx
                        ),
                    ));
                }
                if !max && awaiting == self.cfg.max_tx {
                    out.push(finding(&["C12"], format!("limit {} reached but the error is {:?}", self.cfg.max_tx, e)));
                }
                if max {
                    if !events.is_empty() {
                        out.push(finding(&["C12"], format!("refused request produced {} events", events.len())));
                    }
                    if before != after {
                        out.push(finding(&["C12"], "refused request changed the client state".into()));
                    }
                }
                // other errors: a buffer that is too small, or an application attribute that cannot be encoded and is not
                // of a type the client replaces; anything else must be sendable
                let decoded = |a: &RAttr| matches!(a, RAttr::Fp(FpSpec::Wire(_)) | RAttr::Mi(MacSpec::Wire(_)) | RAttr::MiSha256(MacSpec::Wire(_)));
                let app_kept = crate::sim::packet::app_model(app);
                let left_unencodable = (app_kept.3.as_ref().map(decoded).unwrap_or(false) && !self.cfg.fingerprint)
                    || ((app_kept.1.as_ref().map(decoded).unwrap_or(false) || app_kept.2.as_ref().map(decoded).unwrap_or(false)) && self.cfg.mech == Mech::None);
                if !max && !small_buf && !left_unencodable && self.cfg.max_tx > awaiting && !self.desync {
                    out.push(finding(
                        &["C13"],
                        format!("send_request failed ({:?}) although the buffer is large and every attribute the client does not replace is encodable", e),
                    ));
                }
                if !max && before.outstanding != after.outstanding {
                    out.push(finding(&["C12"], format!("failed send_request ({:?}) changed the outstanding table", e)));
                }
            }
            Ok(t) => {
                let tid = tid_of(&t);
                if awaiting >= self.cfg.max_tx {
                    out.push(finding(
                        &["C12"],
                        format!("request accepted although {} requests are unfinished and the limit is {}", awaiting, self.cfg.max_tx),
                    ));
                }
                if !self.tids.insert(tid) {
                    out.push(finding(&["C13"], format!("transaction id {} was used before", fmt_tid(&tid))));
                }
                let pkts: Vec<&Vec<u8>> = events.iter().filter_map(|e| if let Ev::Packet(p) = e { Some(p) } else { None }).collect();
                if pkts.len() != 1 || events.iter().any(|e| !matches!(e, Ev::Packet(_) | Ev::Rto(..))) {
                    out.push(finding(
                        &["C13", "C05"],
                        format!("send_request produced events {:?}, expected one packet and one timeout notification", ev_names(&events)),
                    ));
                }
                let mut info = None;
                let mut packet = Vec::new();
                if let Some(p) = pkts.first() {
                    packet = (*p).clone();
                    if !self.desync {
                        info = check_packet(p, &self.cfg, &cred, method & 0xFFF, 0, app, &mut out);
                    } else {
                        info = check_packet(p, &self.cfg, &CredView::None, method & 0xFFF, 0, &[], &mut Vec::new());
                    }
                    if let Some(i) = &info {
                        if i.tid != tid {
                            out.push(finding(&["C13"], "packet carries a different transaction id than the one returned".into()));
                        }
                    }
                }
                if let (Some(i), Some(s)) = (&info, self.lt_sess.as_mut()) {
                    if i.chosen_alg.is_some() {
                        s.chosen = i.chosen_alg;
                    }
                }
                let (srv_key, srv_sha) = self.server_key_for(info.as_ref());
                // schedule
                let (rto, slots, deadline) = match self.cfg.reliable {
                    Some(ms) => {
                        let t = ms * 1_000_000;
                        (t, Vec::new(), self.now + t)
                    }
                    None => {
                        let rto = after.rto.map(|d| d.as_nanos() as u64).unwrap_or(self.cfg.rto_us * 1000);
                        let rc = self.cfg.rc.max(1);
                        let slots: Vec<u64> = (1..rc).map(|k| self.now.saturating_add(((1u64 << k.min(40)) - 1).saturating_mul(rto))).collect();
                        let d = self.now.saturating_add(((1u64 << (rc - 1).min(40)) - 1 + self.cfg.rm as u64).saturating_mul(rto));
                        (rto, slots, d)
                    }
                };
                let expiry = slots.first().copied().unwrap_or(deadline);
                self.reqs.push(Req {
                    tid,
                    method: method & 0xFFF,
                    t0: self.now,
                    rto,
                    slots,
                    deadline,
                    expiry,
                    transmissions: 1,
                    retransmitted: false,
                    packet,
                    fin: None,
                    marked: Some(false),
                    srv_key,
                    srv_sha,
                    overdue: false,
                });
                self.sent_ok += 1;
                self.max_concurrency = self.max_concurrency.max(self.awaiting().len());
                self.check_notification(&events, &after, &mut out);
            }
        }
        self.check_hooks(&after, &mut out);
        out
    }

    fn do_indication(&mut self, method: u16, app: &[RAttr]) -> Vec<Finding> {
        let mut out = Vec::new();
        let before = self.snapshot();
        let cred = self.cred_view();
        let r = self
            .client
            .send_indication(method_of(method), Self::to_attrs(app), vec![0xA5u8; 8192]);
        let events = convert_events(self.client.events());
        let after = self.snapshot();
        if before.outstanding != after.outstanding || before.timeouts != after.timeouts {
            out.push(finding(&["C12"], "sending an indication changed the outstanding requests or their timers".into()));
        }
        match r {
            Ok(t) => {
                if self.cfg.mech == Mech::LongTerm {
                    out.push(finding(&["C08"], "indication accepted with long-term credentials configured".into()));
                }
                let tid = tid_of(&t);
                if !self.tids.insert(tid) {
                    out.push(finding(&["C13"], format!("transaction id {} was used before", fmt_tid(&tid))));
                }
                self.ind_tids.push(tid);
                match events.as_slice() {
                    [Ev::Packet(p)] => {
                        if !self.desync {
                            let cred = match cred {
                                CredView::LongTerm { .. } => CredView::None,
                                c => c,
                            };
                            if let Some(i) = check_packet(p, &self.cfg, &cred, method & 0xFFF, 1, app, &mut out) {
                                if i.tid != tid {
                                    out.push(finding(&["C13"], "indication packet carries a different transaction id".into()));
                                }
                            }
                        }
                    }
                    other => out.push(finding(
                        &["C13"],
                        format!("send_indication produced events {:?}, expected exactly one packet", ev_names(other)),
                    )),
                }
            }
            Err(_) => {
                if !events.is_empty() {
                    out.push(finding(&["C13", "C08"], "refused indication produced events".into()));
                }
                if before != after {
                    out.push(finding(&["C08"], "refused indication changed the client state".into()));
                }
            }
        }
        self.check_hooks(&after, &mut out);
        out
    }

    /// on_timeout at self.now.  `controller` = the call is made by the notification-following controller.
    pub fn do_timer(&mut self, controller: bool) -> Vec<Finding> {
        let mut out = Vec::new();
        let now = self.now;
        let due: Vec<usize> = self.awaiting().into_iter().filter(|i| self.reqs[*i].expiry <= now).collect();
        if let Some(e) = self.min_expiry() {
            if now > e {
                self.late_timer_calls += 1;
            }
        }
        self.client.on_timeout(at(now));
        let events = convert_events(self.client.events());
        let mut handled: HashSet<[u8; 12]> = HashSet::new();
        for e in &events {
            match e {
                Ev::Packet(p) => {
                    let tid = ref_header(p).map(|h| h.2).unwrap_or([0; 12]);
                    match self.req_index(&tid) {
                        None => out.push(finding(&["C13", "C05"], "timer call emitted a packet that belongs to no request".into())),
                        Some(i) => {
                            if self.reqs[i].fin.is_some() {
                                self.post_final_events += 1;
                                out.push(finding(
                                    &["C05"],
                                    format!("packet retransmitted for transaction {} after its final outcome", fmt_tid(&tid)),
                                ));
                                continue;
                            }
                            let r = &self.reqs[i];
                            if !due.contains(&i) {
                                out.push(finding(
                                    &["C06"],
                                    format!(
                                        "retransmission at t0+{} ns although the next slot of the schedule is t0+{} ns (RTO {} ns)",
                                        now - r.t0,
                                        r.expiry - r.t0,
                                        r.rto
                                    ),
                                ));
                            } else if now >= r.deadline {
                                out.push(finding(
                                    &["C06"],
                                    format!("retransmission at t0+{} ns, at or after the deadline t0+{} ns", now - r.t0, r.deadline - r.t0),
                                ));
                            }
                            if *p != r.packet {
                                out.push(finding(&["C06", "C13"], "retransmitted packet differs from the packet first sent".into()));
                            }
                            if !handled.insert(tid) {
                                out.push(finding(&["C06"], "two transmissions of the same request in one timer call".into()));
                            }
                            let r = &mut self.reqs[i];
                            r.transmissions += 1;
                            r.retransmitted = true;
                            if r.transmissions > self.cfg.rc.max(1) && self.cfg.reliable.is_none() {
                                out.push(finding(&["C06"], format!("{} transmissions, Rc is {}", r.transmissions, self.cfg.rc)));
                            }
                            if self.cfg.reliable.is_some() {
                                out.push(finding(&["C06"], "request retransmitted over a reliable transport".into()));
                            }
                            let skipped = r.slots.iter().filter(|s| **s > r.expiry && **s <= now).count() as u64;
                            self.skipped_slots += skipped;
                            let next = r.slots.iter().copied().chain(std::iter::once(r.deadline)).filter(|x| *x > now).min();
                            r.expiry = next.unwrap_or(r.deadline);
                        }
                    }
                }
                Ev::Failed(tid, kind) => match self.req_index(tid) {
                    None => out.push(finding(&["C05"], "failure reported for an unknown transaction".into())),
                    Some(i) => {
                        if self.reqs[i].fin.is_some() {
                            self.post_final_events += 1;
                            out.push(finding(
                                &["C05"],
                                format!(
                                    "transaction {} already had the final outcome {:?}; a second one ({:?}) was reported",
                                    fmt_tid(tid),
                                    self.reqs[i].fin.unwrap().0,
                                    kind
                                ),
                            ));
                            continue;
                        }
                        let r = &self.reqs[i];
                        if now < r.deadline {
                            out.push(finding(
                                &["C06"],
                                format!(
                                    "transaction reported as failed at t0+{} ns, before the deadline t0+{} ns (RTO {} ns, Rc {}, Rm {})",
                                    now - r.t0,
                                    r.deadline - r.t0,
                                    r.rto,
                                    self.cfg.rc,
                                    self.cfg.rm
                                ),
                            ));
                        }
                        let exp_pv = match (&self.cfg.mech, r.marked) {
                            (Mech::None, _) => Some(false),
                            (Mech::ShortTerm(_), m) => m,
                            (Mech::LongTerm, _) => None,
                        };
                        match (kind, exp_pv) {
                            (FinalKind::FailedTimedOut, Some(true)) => out.push(finding(
                                &["C07"],
                                "a response failed authentication earlier and none was accepted, but the final failure is reported as timed out".into(),
                            )),
                            (FinalKind::FailedProtection, Some(false)) => out.push(finding(
                                &["C07", "C17"],
                                "final failure reported as protection violated although no response of this transaction failed authentication".into(),
                            )),
                            (FinalKind::FailedTimedOut, _) | (FinalKind::FailedProtection, _) => {}
                            (k, _) => out.push(finding(&["C06"], format!("timer call reported {:?}", k))),
                        }
                        handled.insert(*tid);
                        self.finalise(i, *kind);
                        self.had_failure_final = true;
                    }
                },
                Ev::Rto(..) => {}
                other => out.push(finding(&["C05"], format!("timer call produced unexpected event {:?}", ev_names(std::slice::from_ref(other))))),
            }
        }
        for i in due {
            let r = &self.reqs[i];
            if !handled.contains(&r.tid) {
                if now >= r.deadline {
                    out.push(finding(
                        &["C06", "C11"],
                        format!(
                            "timer call at t0+{} ns, at or after the deadline t0+{} ns, did not report transaction {} as failed",
                            now - r.t0,
                            r.deadline - r.t0,
                            fmt_tid(&r.tid)
                        ),
                    ));
                    if controller {
                        self.reqs[i].overdue = true;
                    }
                } else {
                    out.push(finding(
                        &["C06"],
                        format!("timer call at t0+{} ns, slot t0+{} ns due, but the request was not retransmitted", now - r.t0, r.expiry - r.t0),
                    ));
                }
            }
        }
        let after = self.snapshot();
        self.check_notification(&events, &after, &mut out);
        if !events.iter().any(|e| matches!(e, Ev::Rto(..))) {
            self.armed = None;
        }
        self.check_hooks(&after, &mut out);
        out
    }

    fn finalise(&mut self, i: usize, kind: FinalKind) {
        self.reqs[i].fin = Some((kind, self.now));
        self.finals_seen += 1;
    }

    pub fn do_deliver(&mut self, bytes: &[u8], trusted: bool) -> Vec<Finding> {
        let mut out = Vec::new();
        let before = self.snapshot();
        // facts under the key the target request's server would use (or the short-term password)
        let tid_guess = ref_header(bytes).map(|h| h.2).ok();
        let req_i = tid_guess.and_then(|t| self.req_index(&t));
        let key = self.server_key_for(None).0;
        let mut facts = facts_of(bytes, &key);
        let is_401 = facts.class == 3 && facts.error_code == Some(401);
        if is_401 && self.cfg.mech == Mech::LongTerm {
            // integrity of a 401 is judged under the key the new challenge implies
            if let Some(realm) = &facts.realm {
                let preferred = match &facts.algs {
                    Some(l) if l.iter().any(|a| a.id == 2) => 2,
                    _ => 1,
                };
                let k = KeySpec::LongTerm {
                    user: ref_opaque(&self.cfg.user),
                    realm: realm.clone(),
                    password: self.cfg.password.clone(),
                    alg: preferred,
                }
                .key_bytes();
                facts = facts_of(bytes, &k);
            }
        }
        let awaiting_before = req_i.map(|i| self.reqs[i].fin.is_none()).unwrap_or(false);
        if req_i.map(|i| self.reqs[i].fin.is_some()).unwrap_or(false) {
            self.deliveries_to_finished += 1;
        }
        self.lt_states_seen |= 1 << (self.lt_state as u8);
        if self.cfg.fingerprint && awaiting_before && facts.ref_ok && facts.fp != Some(true) {
            self.bad_fp_to_outstanding += 1;
        }
        let any_awaiting = !self.awaiting().is_empty();
        let r = self.client.on_buffer_recv(bytes, at(self.now));
        let events = convert_events(self.client.events());
        let after = self.snapshot();
        let is_response = facts.ref_ok && (facts.class == 2 || facts.class == 3);
        match &r {
            Err(_) => {
                if any_awaiting {
                    self.rejected_while_outstanding += 1;
                }
                if !events.is_empty() {
                    out.push(finding(&["C17"], format!("rejected buffer produced events {:?}", ev_names(&events))));
                }
                if before != after {
                    // the documented exception: the violated marker of this very transaction
                    let mut b2 = before.clone();
                    let marker_ok = self.cfg.reliable.is_none() && self.cfg.mech != Mech::None && is_response && awaiting_before;
                    if marker_ok {
                        if let Some(t) = after.violated.iter().find(|t| tid_of(t) == facts.tid) {
                            if !b2.violated.contains(t) {
                                b2.violated.push(*t);
                                b2.violated.sort();
                            }
                        }
                    }
                    if b2 != after {
                        out.push(finding(&["C17"], format!("rejected buffer changed the client state: {}", snap_diff(&before, &after))));
                    }
                }
                // model marker
                if let Some(i) = req_i {
                    if awaiting_before && after.violated.iter().any(|t| tid_of(t) == self.reqs[i].tid) && !before.violated.iter().any(|t| tid_of(t) == self.reqs[i].tid) {
                        // follows the implementation; asserted through the final failure reason (C07)
                    }
                }
            }
            Ok(()) => {
                // how many events an accepted buffer produces is not fixed by any property; final outcomes are counted per id below
            }
        }
        // C10: fingerprint gate
        let completes = events.iter().any(|e| match e {
            Ev::Failed(t, _) | Ev::Retry(t) => *t == facts.tid,
            Ev::Received { tid, .. } => *tid == facts.tid,
            _ => false,
        });
        if self.cfg.fingerprint && (r.is_ok() || completes) && facts.ref_ok && facts.fp != Some(true) {
            out.push(finding(
                &["C10"],
                format!(
                    "fingerprint-configured client accepted a message whose FINGERPRINT is {}",
                    if facts.fp.is_none() { "missing" } else { "wrong" }
                ),
            ));
        }
        let gates_ok = facts.ref_ok && facts.typed_ok && (!self.cfg.fingerprint || facts.fp == Some(true));
        // event processing
        for e in &events {
            match e {
                Ev::Received { tid, class } => {
                    if *class == 2 || *class == 3 {
                        match self.req_index(tid) {
                            Some(i) if self.reqs[i].fin.is_none() => {
                                self.deliver_checks(i, &facts, trusted, &mut out);
                                self.finalise(i, FinalKind::Delivered);
                                if self.cfg.mech == Mech::LongTerm && self.lt_sess.is_some() {
                                    self.lt_state = LtState::Subsequent;
                                }
                            }
                            Some(i) => {
                                self.post_final_events += 1;
                                out.push(finding(
                                    &["C05"],
                                    format!(
                                        "response delivered for transaction {} which already had the final outcome {:?}",
                                        fmt_tid(tid),
                                        self.reqs[i].fin.unwrap().0
                                    ),
                                ));
                            }
                            None => out.push(finding(&["C05"], "response delivered for a transaction that was never sent".into())),
                        }
                    } else {
                        // indication
                        self.indication_checks(&facts, &mut out);
                    }
                }
                Ev::Failed(..) | Ev::Retry(..) => {
                    let (tid, k) = match e {
                        Ev::Retry(t) => (*t, FinalKind::Retry),
                        Ev::Failed(t, k) => (*t, *k),
                        _ => unreachable!(),
                    };
                    match self.req_index(&tid) {
                        Some(i) if self.reqs[i].fin.is_none() => {
                            self.failure_checks(i, k, &facts, trusted, &mut out);
                            self.finalise(i, k);
                            self.had_failure_final = true;
                        }
                        Some(_) => {
                            self.post_final_events += 1;
                            out.push(finding(&["C05"], format!("second final outcome for transaction {}", fmt_tid(&tid))));
                        }
                        None => out.push(finding(&["C05"], "final outcome reported for an unknown transaction".into())),
                    }
                }
                Ev::Packet(_) => out.push(finding(&["C05", "C13"], "receiving a buffer emitted a packet".into())),
                Ev::Rto(..) => out.push(finding(&["C11"], "receiving a buffer emitted a timeout notification".into())),
                _ => {}
            }
        }
        // expectations when the buffer is rejected although the property says it must be acted upon
        if r.is_err() && trusted && gates_ok && is_response && awaiting_before {
            self.rejection_checks(req_i.unwrap(), &facts, &mut out);
        }
        if r.is_ok() && trusted && is_response && !awaiting_before {
            // covered by the C05 findings above
        }
        if r.is_err() && is_response && awaiting_before {
            // model marker for short-term: an ignored failing response marks the transaction
            if let Some(i) = req_i {
                let both = facts.mi.is_some() && facts.sha.is_some();
                if gates_ok && self.cfg.reliable.is_none() && matches!(self.cfg.mech, Mech::ShortTerm(_)) {
                    if both {
                        if self.reqs[i].marked == Some(false) {
                            self.reqs[i].marked = None;
                        }
                    } else if trusted {
                        self.reqs[i].marked = Some(true);
                    } else {
                        self.reqs[i].marked = None;
                    }
                } else if trusted {
                    // a reply the harness built itself and that fails an earlier gate (fingerprint): it must leave no trace,
                    // so the model marker stays as it is and a disturbed marker shows in the final failure reason
                } else if !trusted || !gates_ok {
                    // hostile input: whether it got as far as the credential check is not modelled
                    if matches!(self.cfg.mech, Mech::ShortTerm(_)) && self.cfg.reliable.is_none() {
                        let was = before.violated.iter().any(|t| tid_of(t) == self.reqs[i].tid);
                        let is = after.violated.iter().any(|t| tid_of(t) == self.reqs[i].tid);
                        if was != is {
                            self.reqs[i].marked = None;
                        }
                    }
                }
            }
        }
        // a received REQUEST is never for the client, whatever id it carries ("a request" is a rejected buffer, C17;
        // only a response completes a transaction, C05)
        if facts.ref_ok && facts.class == 0 && (r.is_ok() || !events.is_empty()) {
            out.push(finding(
                &["C05", "C17"],
                format!("a received request was accepted (result {}, events {:?})", if r.is_ok() { "Ok" } else { "Err" }, ev_names(&events)),
            ));
        }
        // responses for finished / unknown transactions must be rejected (C05)
        if r.is_ok() && is_response && !awaiting_before && events.is_empty() {
            out.push(finding(&["C05"], "response for a transaction that is not awaiting one was accepted".into()));
        }
        self.check_hooks(&after, &mut out);
        out
    }

    fn indication_checks(&mut self, facts: &Facts, out: &mut Vec<Finding>) {
        match self.cfg.mech {
            Mech::LongTerm => out.push(finding(&["C08"], "indication delivered with long-term credentials configured".into())),
            Mech::ShortTerm(_) => {
                let ok = match self.st_agreed {
                    Some(true) => facts.sha == Some(true),
                    Some(false) => facts.mi == Some(true),
                    None => facts.mi == Some(true) || facts.sha == Some(true),
                };
                if !ok {
                    out.push(finding(
                        &["C07"],
                        format!(
                            "indication delivered without integrity that verifies under the configured password with the agreed algorithm (agreed {:?}, MI {:?}, SHA256 {:?})",
                            self.st_agreed, facts.mi, facts.sha
                        ),
                    ));
                }
            }
            Mech::None => {}
        }
    }

    /// a response was delivered to the application for awaiting request i
    fn deliver_checks(&mut self, i: usize, facts: &Facts, trusted: bool, out: &mut Vec<Finding>) {
        match self.cfg.mech.clone() {
            Mech::None => {}
            Mech::ShortTerm(_) => {
                if facts.mi.is_some() && facts.sha.is_some() {
                    out.push(finding(&["C07"], "response carrying both integrity attributes was delivered".into()));
                }
                let ok = match self.st_agreed {
                    Some(true) => facts.sha == Some(true),
                    Some(false) => facts.mi == Some(true),
                    None => facts.mi == Some(true) || facts.sha == Some(true),
                };
                if !ok {
                    out.push(finding(
                        &["C07"],
                        format!(
                            "response delivered without integrity that verifies under the configured password with the agreed algorithm (agreed {:?}, MI {:?}, SHA256 {:?})",
                            self.st_agreed, facts.mi, facts.sha
                        ),
                    ));
                }
                if self.st_agreed.is_none() {
                    if facts.mi == Some(true) && facts.sha.is_none() {
                        self.st_agreed = Some(false);
                    } else if facts.sha == Some(true) && facts.mi.is_none() {
                        self.st_agreed = Some(true);
                    } else if !trusted {
                        self.desync = true;
                    }
                }
            }
            Mech::LongTerm => {
                let _ = i;
                let kind_sha = self.server_key_for(None).1;
                let ok = if kind_sha { facts.sha == Some(true) } else { facts.mi == Some(true) };
                if self.desync || !self.lt_key_certain() {
                } else if self.lt_sess.is_none() {
                    out.push(finding(&["C08"], "response delivered before any challenge was accepted (no key to verify it with)".into()));
                } else if !ok && !self.desync {
                    out.push(finding(
                        &["C08"],
                        format!(
                            "response delivered although it does not verify under the session key (expected {}, MI {:?}, SHA256 {:?})",
                            if kind_sha { "SHA256" } else { "MESSAGE-INTEGRITY" },
                            facts.mi,
                            facts.sha
                        ),
                    ));
                }
                if facts.error_code == Some(401) || facts.error_code == Some(438) {
                    // follows the implementation; not named by the property
                }
            }
        }
    }

    /// a failure / retry was reported for awaiting request i as the result of a received buffer
    fn failure_checks(&mut self, i: usize, kind: FinalKind, facts: &Facts, trusted: bool, out: &mut Vec<Finding>) {
        let _ = i;
        match (self.cfg.mech.clone(), kind) {
            // a failure reported on receipt by a client without credentials is one final outcome like any other:
            // multiplicity is judged by the per-id counting, the fingerprint gate by the C10 invariant
            (Mech::None, _) => {}
            (Mech::ShortTerm(_), FinalKind::FailedProtection) => {
                if self.cfg.reliable.is_none() {
                    out.push(finding(
                        &["C07"],
                        "a failing response ended the transaction on unreliable transport (it must be ignored and retransmissions continue)".into(),
                    ));
                }
                let ok = match self.st_agreed {
                    Some(true) => facts.sha == Some(true),
                    Some(false) => facts.mi == Some(true),
                    None => facts.mi == Some(true) || facts.sha == Some(true),
                };
                if ok && trusted && !(facts.mi.is_some() && facts.sha.is_some()) {
                    out.push(finding(&["C07"], "protection-violated failure for a response whose integrity verifies".into()));
                }
            }
            (Mech::ShortTerm(_), k) => out.push(finding(&["C07"], format!("{:?} reported by a short-term client for a received response", k))),
            (Mech::LongTerm, FinalKind::Retry) => {
                // RFC 8489 9.2.5: an integrity attribute that is present in a 401 / 438 must verify (under the key the
                // challenge implies / the session key); a retry instruction from a forged challenge is a C08 matter
                if trusted && !self.desync {
                    let (kind_sha, certain) = match facts.error_code {
                        Some(401) => (facts.algs.is_some(), true),
                        _ => (self.server_key_for(None).1, self.lt_key_certain()),
                    };
                    let present_invalid = if kind_sha { facts.sha == Some(false) } else { facts.mi == Some(false) };
                    if certain && present_invalid {
                        out.push(finding(
                            &["C08"],
                            format!(
                                "retry instructed by a {} response whose {} is present but does not verify",
                                facts.error_code.unwrap_or(0),
                                if kind_sha { "MESSAGE-INTEGRITY-SHA256" } else { "MESSAGE-INTEGRITY" }
                            ),
                        ));
                    }
                }
                // the client accepted a challenge: follow it
                match facts.error_code {
                    Some(401) if facts.realm.is_some() && facts.nonce.is_some() => {
                        self.lt_sess = Some(LtSess {
                            realm: facts.realm.clone().unwrap(),
                            nonce: facts.nonce.clone().unwrap(),
                            algs: facts.algs.clone(),
                            anon: facts.cookie_anon_bit,
                            chosen: None,
                        });
                        self.lt_state = LtState::Retry401;
                    }
                    Some(438) if facts.nonce.is_some() && self.lt_sess.is_some() => {
                        self.lt_sess.as_mut().unwrap().nonce = facts.nonce.clone().unwrap();
                        self.lt_state = LtState::Retry438;
                    }
                    _ => {
                        if trusted {
                            out.push(finding(
                                &["C08"],
                                format!("retry instruction for a response that is neither a complete 401 nor a 438 (code {:?})", facts.error_code),
                            ));
                        }
                        self.desync = true;
                    }
                }
                if !trusted {
                    self.desync = true;
                }
            }
            (Mech::LongTerm, FinalKind::FailedProtection) => {
                if self.cfg.reliable.is_none() {
                    out.push(finding(&["C08"], "protection-violated failure on receipt over unreliable transport".into()));
                }
            }
            (Mech::LongTerm, FinalKind::FailedDoNotRetry) => {
                // "after the server's 401 challenge the application is told to retry; a 438 switches to the new nonce":
                // a well-formed challenge the harness built itself must not end the transaction with do-not-retry
                if trusted && !self.desync {
                    let supported = |l: &Vec<RAlg>| l.iter().any(|a| a.id == 1 || a.id == 2);
                    let algs_ok = match &facts.algs {
                        None => !facts.cookie_algs_bit,
                        Some(l) => supported(l),
                    };
                    let no_auth = facts.mi.is_none() && facts.sha.is_none();
                    match facts.error_code {
                        Some(401) if facts.class == 3 && facts.realm.is_some() && facts.nonce.is_some() && algs_ok && no_auth => {
                            out.push(finding(&["C08"], "well-formed 401 challenge ended the transaction with do-not-retry instead of a retry instruction".into()));
                        }
                        Some(438) if facts.class == 3 && facts.nonce.is_some() && self.lt_sess.is_some() && algs_ok && no_auth => {
                            out.push(finding(&["C08"], "well-formed 438 with a new nonce ended the transaction with do-not-retry instead of a retry instruction".into()));
                        }
                        _ => {}
                    }
                }
            }
            (Mech::LongTerm, _) => {}
        }
    }

    /// a trusted, well-formed response for awaiting request i was rejected (Err): was that allowed?
    fn rejection_checks(&mut self, i: usize, facts: &Facts, out: &mut Vec<Finding>) {
        match self.cfg.mech.clone() {
            Mech::None => out.push(finding(
                &["C05"],
                "well-formed response for an awaiting transaction was rejected by a client without credentials".into(),
            )),
            Mech::ShortTerm(_) => {
                let both = facts.mi.is_some() && facts.sha.is_some();
                let single_valid = !both
                    && match self.st_agreed {
                        Some(true) => facts.sha == Some(true),
                        Some(false) => facts.mi == Some(true),
                        None => facts.mi == Some(true) || facts.sha == Some(true),
                    };
                if single_valid {
                    out.push(finding(
                        &["C07"],
                        format!(
                            "response with a single valid integrity attribute of the agreed algorithm was rejected (agreed {:?})",
                            self.st_agreed
                        ),
                    ));
                } else if !both && self.cfg.reliable.is_some() {
                    out.push(finding(
                        &["C07"],
                        "failing response on reliable transport was ignored instead of ending the transaction with a protection-violated failure".into(),
                    ));
                }
            }
            Mech::LongTerm => {
                if self.desync || !self.lt_key_certain() {
                    return;
                }
                let _ = i;
                let kind_sha = self.server_key_for(None).1;
                let auth_ok = if kind_sha { facts.sha == Some(true) && facts.mi.is_none() } else { facts.mi == Some(true) && facts.sha.is_none() };
                let no_auth = facts.mi.is_none() && facts.sha.is_none();
                match facts.error_code {
                    Some(401) if facts.class == 3 => {
                        let algs_ok = match &facts.algs {
                            None => !facts.cookie_algs_bit,
                            Some(l) => l.iter().any(|a| a.id == 1 || a.id == 2),
                        };
                        if facts.realm.is_some() && facts.nonce.is_some() && algs_ok && no_auth {
                            out.push(finding(&["C08"], "well-formed 401 challenge was rejected instead of instructing a retry".into()));
                        }
                    }
                    Some(438) if facts.class == 3 => {
                        if facts.nonce.is_some() && self.lt_sess.is_some() && (no_auth || auth_ok) && (facts.algs.is_some() || !facts.cookie_algs_bit) {
                            out.push(finding(&["C08"], "438 with a new nonce was rejected instead of instructing a retry".into()));
                        }
                    }
                    _ => {
                        if self.lt_sess.is_some() && auth_ok && (facts.class == 2 || facts.error_code.is_some()) && (facts.algs.is_some() || !facts.cookie_algs_bit || facts.class == 2) {
                            out.push(finding(&["C08"], "authentic response (verifies under the session key) was rejected".into()));
                        }
                    }
                }
            }
        }
    }

    /// C11 sufficiency: a controller that only follows notifications (possibly late) drains the client.
    pub fn drain(&mut self, lates: &[u64]) -> Vec<Finding> {
        let mut out = Vec::new();
        let mut k = 0usize;
        while let Some(fire) = self.armed {
            if k > 400 {
                out.push(finding(&["C11"], "controller still has timers after 400 calls".into()));
                break;
            }
            let late = if lates.is_empty() { 0 } else { lates[k % lates.len()] };
            k += 1;
            let target = self.now.max(fire.saturating_add(late));
            if target > CLOCK_HORIZON {
                // beyond the model's horizon: the run ends here without a verdict on what is still pending
                return out;
            }
            self.now = target;
            let f = self.do_timer(true);
            if !f.is_empty() {
                return f;
            }
        }
        for r in self.reqs.iter().filter(|r| r.fin.is_none()) {
            out.push(finding(
                &["C11"],
                format!(
                    "controller that follows the notifications has no timer left, but transaction {} (deadline t0+{} ns) never reached a final outcome",
                    fmt_tid(&r.tid),
                    r.deadline - r.t0
                ),
            ));
        }
        out
    }
}

pub fn append_valid_fp(bytes: &[u8]) -> Vec<u8> {
    // strip nothing; append a FINGERPRINT computed over what is there (if it is at least a header)
    if bytes.len() < 20 {
        return bytes.to_vec();
    }
    let l = u16::from_be_bytes([bytes[2], bytes[3]]) as usize;
    let end = (20 + l).min(bytes.len());
    let mut out = bytes[..end].to_vec();
    while out.len() % 4 != 0 {
        out.push(0);
    }
    let newl = (out.len() - 20 + 8) as u16;
    out[2..4].copy_from_slice(&newl.to_be_bytes());
    let crc = crate::refcrypto::crc32(&out) ^ FP_XOR;
    out.extend_from_slice(&T_FINGERPRINT.to_be_bytes());
    out.extend_from_slice(&4u16.to_be_bytes());
    out.extend_from_slice(&crc.to_be_bytes());
    out
}

pub fn ev_names(evs: &[Ev]) -> Vec<String> {
    evs.iter()
        .map(|e| match e {
            Ev::Packet(p) => format!("OutputPacket({} bytes)", p.len()),
            Ev::Rto(t, d) => format!("RetransmissionTimeOut({}, {} ns)", crate::report::hex(&t[..4]), d),
            Ev::Retry(t) => format!("Retry({})", crate::report::hex(&t[..4])),
            Ev::Failed(t, k) => format!("TransactionFailed({}, {:?})", crate::report::hex(&t[..4]), k),
            Ev::Received { tid, class } => format!("StunMessageReceived({}, class {})", crate::report::hex(&tid[..4]), class),
        })
        .collect()
}

pub fn snap_diff(a: &VerifSnapshot, b: &VerifSnapshot) -> String {
    let mut d = Vec::new();
    if a.outstanding != b.outstanding {
        d.push("outstanding transactions / retransmission state");
    }
    if a.timeouts != b.timeouts {
        d.push("pending timers");
    }
    if a.rto != b.rto || a.rtt_debug != b.rtt_debug {
        d.push("RTT estimate");
    }
    if a.last_request != b.last_request {
        d.push("last-request instant");
    }
    if a.mechanism != b.mechanism {
        d.push("credential state");
    }
    if a.violated != b.violated {
        d.push("violated-transaction markers");
    }
    d.join(", ")
}
