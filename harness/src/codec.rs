//! Thin wrappers around the library's encoder/decoder plus model normalisation shared by the codec properties.

use crate::conv;
use crate::refcodec::*;
use crate::report::Stats;
use stun_rs::{
    DecoderContextBuilder, EncoderContextBuilder, HMACKey, MessageDecoderBuilder, MessageEncoderBuilder, StunMessage,
    StunPadding,
};

#[derive(Clone, Debug, Default)]
pub struct DecOpts {
    pub key: Option<HMACKey>,
    pub validation: bool,
    pub unknown_data: bool,
    pub not_ignore: bool,
    /// false = decoder built without any context
    pub with_ctx: bool,
}

impl DecOpts {
    pub fn plain() -> Self {
        DecOpts::default()
    }
    pub fn name(&self) -> String {
        format!(
            "ctx={} key={} val={} unk={} notign={}",
            self.with_ctx as u8,
            self.key.is_some() as u8,
            self.validation as u8,
            self.unknown_data as u8,
            self.not_ignore as u8
        )
    }
}

pub fn lib_decode(bytes: &[u8], o: &DecOpts) -> Result<(StunMessage, usize), String> {
    let dec = if o.with_ctx {
        // the builder's setters are called in an order that depends on the input (rotation and direction by its length):
        // the resulting context must not depend on it
        let mut b = DecoderContextBuilder::default();
        let rot = bytes.len() % 4;
        let rev = (bytes.len() / 4) % 2 == 1;
        for i in 0..4usize {
            let j = if rev { 3 - (i + rot) % 4 } else { (i + rot) % 4 };
            b = match j {
                0 => match &o.key {
                    Some(k) => b.with_key(k.clone()),
                    None => b,
                },
                1 if o.validation => b.with_validation(),
                2 if o.unknown_data => b.with_unknown_data(),
                3 if o.not_ignore => b.not_ignore(),
                _ => b,
            };
        }
        MessageDecoderBuilder::default().with_context(b.build()).build()
    } else {
        MessageDecoderBuilder::default().build()
    };
    dec.decode(bytes).map_err(|e| format!("{}", e))
}

/// Encode into `buf`; `padding` = Some(v) uses the experiments feature's custom padding byte.
pub fn lib_encode_into(msg: &StunMessage, buf: &mut [u8], padding: Option<u8>) -> Result<usize, String> {
    let enc = match padding {
        Some(v) => MessageEncoderBuilder::default()
            .with_context(
                EncoderContextBuilder::default()
                    .with_custom_padding(StunPadding::Custom(v))
                    .build(),
            )
            .build(),
        None => MessageEncoderBuilder::default().build(),
    };
    enc.encode(buf, msg).map_err(|e| format!("{}", e))
}

pub fn lib_encode(msg: &StunMessage, buf_len: usize, padding: Option<u8>) -> Result<Vec<u8>, String> {
    // a dirty buffer: whatever the encoder does not write shows up in the comparison with the reference bytes
    let mut buf = vec![0xA5u8; buf_len];
    let n = lib_encode_into(msg, &mut buf, padding)?;
    if n > buf.len() {
        return Err(format!("returned size {} exceeds buffer {}", n, buf.len()));
    }
    buf.truncate(n);
    Ok(buf)
}

/// A constructor refused the message.  The generators stay inside the documented limits on purpose, with one
/// exception: USERNAME values whose OpaqueString-enforced form exceeds 508 bytes (boundary cases).  Any other refusal
/// means a value within the documented limits cannot be built ("every message that can be built ... encodes").
pub fn expected_rejection(msg: &RMsg, err: &str) -> Result<(), String> {
    let long_name = msg.attrs.iter().any(|a| matches!(a, RAttr::UserName(s) if ref_opaque(s).len() > 508));
    if long_name {
        Ok(())
    } else {
        Err(format!(
            "a public constructor refused a value inside the documented limits: {} (message: {})",
            err,
            crate::report::truncate(&format!("{:?}", msg.attrs), 400)
        ))
    }
}

pub struct Prepared {
    /// the model with every value replaced by what the library's constructor stored
    pub model: RMsg,
    pub lib: StunMessage,
    pub normalised: usize,
}

/// Build the library message through the public constructors; the constructor is the arbiter of what is
/// "within documented limits".  Err = rejected by a constructor (never a violation).
pub fn prepare(msg: &RMsg) -> Result<Prepared, String> {
    let lib = conv::to_lib_msg(msg)?;
    let mut model = msg.clone();
    let mut normalised = 0;
    for (i, a) in lib.attributes().iter().enumerate() {
        match (&msg.attrs[i], conv::from_lib(a)) {
            (RAttr::UserName(orig), RAttr::UserName(stored))
            | (RAttr::Realm(orig), RAttr::Realm(stored))
            | (RAttr::Nonce(orig), RAttr::Nonce(stored)) => {
                if *orig != stored {
                    normalised += 1;
                }
                model.attrs[i] = match &msg.attrs[i] {
                    RAttr::UserName(_) => RAttr::UserName(stored),
                    RAttr::Realm(_) => RAttr::Realm(stored),
                    _ => RAttr::Nonce(stored),
                };
            }
            _ => {}
        }
    }
    Ok(Prepared { model, lib, normalised })
}

pub fn var_len(a: &RAttr) -> Option<usize> {
    Some(match a {
        RAttr::UserName(s) | RAttr::Realm(s) | RAttr::Nonce(s) | RAttr::Software(s) | RAttr::Padding(s) => s.len(),
        RAttr::ErrorCode { reason, .. } | RAttr::AddressErrorCode { reason, .. } => 4 + reason.len(),
        RAttr::UnknownAttributes(v) => v.len() * 2,
        RAttr::PasswordAlgorithm(a) => 4 + a.params.len(),
        RAttr::PasswordAlgorithms(l) => l.iter().map(|a| 4 + a.params.len()).sum(),
        RAttr::Data(d) | RAttr::MobilityTicket(d) => d.len(),
        RAttr::Raw { value, .. } => value.len(),
        RAttr::EvenPort(_) => 1,
        RAttr::ResponsePort(_) => 2,
        _ => return None,
    })
}

/// Generator-distribution classes shared by the codec properties.
pub fn classify_msg(m: &RMsg, st: &mut Stats) {
    st.class(&format!("attrs:{}", m.attrs.len().min(13)));
    st.class(&format!("class:{}", m.class));
    for a in &m.attrs {
        st.class(&format!("kind:{}", a.kind_name()));
        if let Some(l) = var_len(a) {
            st.class(&format!("len%4:{}", l % 4));
            if matches!(
                a,
                RAttr::UserName(_) | RAttr::Realm(_) | RAttr::Nonce(_) | RAttr::Software(_) | RAttr::ErrorCode { .. }
            ) {
                let raw = match a {
                    RAttr::ErrorCode { reason, .. } => reason.len(),
                    _ => l,
                };
                if raw == 0 || raw == 1 || raw == 508 || raw == 509 {
                    st.class(&format!("boundary-len:{}", raw));
                }
            }
        }
        if let RAttr::MappedAddress(x)
        | RAttr::AlternateServer(x)
        | RAttr::OtherAddress(x)
        | RAttr::ResponseOrigin(x)
        | RAttr::XorMappedAddress(x)
        | RAttr::XorPeerAddress(x)
        | RAttr::XorRelayedAddress(x) = a
        {
            st.class(match x {
                RAddr::V4(..) => "family:4",
                RAddr::V6(..) => "family:6",
            });
        }
    }
    st.class(crate::gen::tail_name(&m.attrs));
}

pub fn nontrivial_msg(m: &RMsg) -> bool {
    let tail = m
        .attrs
        .iter()
        .any(|a| matches!(a, RAttr::Mi(_) | RAttr::MiSha256(_) | RAttr::Fp(_)));
    let odd = m.attrs.iter().any(|a| var_len(a).map(|l| l % 4 != 0).unwrap_or(false));
    tail || (m.attrs.len() >= 2 && odd)
}

pub fn sample_msg(m: &RMsg, bytes: &[u8]) -> serde_json::Value {
    serde_json::json!({
        "method": m.method,
        "class": m.class,
        "attrs": m.attrs.iter().map(|a| a.kind_name()).collect::<Vec<_>>(),
        "wire_len": bytes.len(),
        "wire_hex_prefix": crate::report::hex(&bytes[..bytes.len().min(48)]),
    })
}

/// Stable class name for a constructor refusal (positions and code points removed).
pub fn reject_class(e: &str) -> String {
    let t: String = e.chars().filter(|c| !c.is_ascii_digit()).collect();
    crate::report::truncate(&t, 60)
}
