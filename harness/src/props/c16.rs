//! C16 — stream reassembly yields the same packets however the stream is chunked.

use crate::gen::*;
use crate::refcodec::*;
use crate::report::*;
use proptest::prelude::*;
use serde::{Deserialize, Serialize};
use serde_json::{json, Value};
use stun_agent::{StunPacketDecodedValue, StunPacketDecoder, StunPacketErrorType};

pub const RULE: &str = "streams of 1-3 reference-encoded packets (0..~1000 attribute bytes, including zero-length messages), optionally followed by a \
truncated packet, optionally with packet k given a bad cookie / non-zero top bits / a length larger than the buffer; every stream is fed whole, byte by \
byte, with generated multi-cut chunkings, and — for streams up to 120 bytes (quick) / 300 bytes (thorough) — with ALL 2-cut chunkings (empty chunks \
included) and, up to 48 / 80 bytes, ALL 3-cut chunkings; buffer sizes exact, +1, +64; one evaluation = one (stream, chunking); non-trivial = a cut \
inside the header of a packet after the first, or an empty chunk; distinct = (stream, chunking)";

#[derive(Clone, Debug, Serialize, Deserialize)]
pub struct StreamCase {
    pub pkts: Vec<Vec<u8>>,
    /// (packet index, 0 bad cookie | 1 top bits | 2 larger than buffer)
    pub bad: Option<(u8, u8)>,
    /// 0 exact, 1 => +1, 2 => +64
    pub buf: u8,
    pub cuts: Vec<Vec<u32>>,
    /// number of bytes of a further, incomplete packet appended at the end (0 = none)
    pub partial: u16,
}

#[derive(Debug, Clone, PartialEq, Eq)]
enum Outcome {
    Packet(Vec<u8>),
    Error { kind: &'static str, size: usize, total_consumed: usize, header: Vec<u8>, buf_len: usize },
}

/// What the reference splitter expects from the stream.
fn expected(stream: &[u8], buf_len: usize) -> (Vec<Outcome>, usize) {
    let mut out = Vec::new();
    let mut pos = 0usize;
    while stream.len() - pos >= 20 {
        let h = &stream[pos..pos + 20];
        match ref_header(h) {
            Err(_) => {
                out.push(Outcome::Error {
                    kind: "InvalidStunPacket",
                    size: 20,
                    total_consumed: pos + 20,
                    header: h.to_vec(),
                    buf_len,
                });
                return (out, pos + 20);
            }
            Ok((_, l, _)) => {
                let total = 20 + l as usize;
                if total > buf_len {
                    out.push(Outcome::Error {
                        kind: "SmallBuffer",
                        size: 20,
                        total_consumed: pos + 20,
                        header: h.to_vec(),
                        buf_len,
                    });
                    return (out, pos + 20);
                }
                if stream.len() - pos < total {
                    break;
                }
                out.push(Outcome::Packet(stream[pos..pos + total].to_vec()));
                pos += total;
            }
        }
    }
    (out, stream.len())
}

/// The buffer handed to the reassembler: `len` dirty bytes, in an allocation that may be larger than that (a reused pool
/// buffer); the limit that counts is the length.
pub fn mk_buf(len: usize, salt: usize) -> Vec<u8> {
    let spare = [0usize, 1, 0, 19, 0, 64, 0, 4096][(len + salt) % 8];
    let mut v = Vec::with_capacity(len + spare);
    v.resize(len, 0xCD);
    v
}

/// Feed the chunks; returns the outcomes and checks the per-chunk contracts.
fn drive(stream: &[u8], chunks: &[usize], buf_len: usize) -> Result<(Vec<Outcome>, usize), String> {
    let mut outcomes = Vec::new();
    let mut dec = Some(StunPacketDecoder::new(mk_buf(buf_len, stream.len())).map_err(|_| "decoder refused a buffer of >= 20 bytes".to_string())?);
    let mut pos = 0usize; // bytes consumed from the stream
    let mut pkt_start = 0usize; // stream offset where the current packet starts
    let mut fed = 0usize;
    for &clen in chunks {
        let chunk = &stream[fed..fed + clen];
        fed += clen;
        let mut off = 0usize;
        loop {
            let d = match dec.take() {
                Some(d) => d,
                None => return Ok((outcomes, pos)),
            };
            let data = &chunk[off..];
            match d.decode(data) {
                Ok(StunPacketDecodedValue::Decoded((packet, consumed))) => {
                    if consumed > data.len() {
                        return Err(format!("consumed {} of a {}-byte chunk", consumed, data.len()));
                    }
                    pos += consumed;
                    off += consumed;
                    outcomes.push(Outcome::Packet(packet.to_vec()));
                    pkt_start = pos;
                    dec = Some(StunPacketDecoder::new(mk_buf(buf_len, pos)).map_err(|_| "decoder refused buffer".to_string())?);
                    if off == chunk.len() {
                        break;
                    }
                }
                Ok(StunPacketDecodedValue::MoreBytesNeeded((d2, missing))) => {
                    pos += data.len();
                    let have = pos - pkt_start;
                    if have >= 20 {
                        let l = u16::from_be_bytes([stream[pkt_start + 2], stream[pkt_start + 3]]) as usize;
                        let want = 20 + l - have;
                        if missing != Some(want) {
                            return Err(format!(
                                "missing bytes reported as {:?}, exact value is {} ({} bytes of a {}-byte packet buffered)",
                                missing,
                                want,
                                have,
                                20 + l
                            ));
                        }
                    } else if missing.is_some() {
                        return Err(format!("missing bytes reported as {:?} before the header is complete ({} bytes)", missing, have));
                    }
                    dec = Some(d2);
                    break;
                }
                Err(e) => {
                    if e.consumed > data.len() {
                        return Err(format!("error reports consumed {} of a {}-byte chunk", e.consumed, data.len()));
                    }
                    pos += e.consumed;
                    outcomes.push(Outcome::Error {
                        kind: match e.error_type {
                            StunPacketErrorType::SmallBuffer => "SmallBuffer",
                            StunPacketErrorType::InvalidStunPacket => "InvalidStunPacket",
                        },
                        size: e.size,
                        total_consumed: pos,
                        header: e.buffer[..20.min(e.buffer.len())].to_vec(),
                        buf_len: e.buffer.len(),
                    });
                    return Ok((outcomes, pos));
                }
            }
        }
    }
    Ok((outcomes, pos))
}

fn build_stream(c: &StreamCase) -> (Vec<u8>, usize, Vec<usize>) {
    let mut pkts = c.pkts.clone();
    let max = pkts.iter().map(|p| p.len()).max().unwrap_or(20).max(20);
    let mut buf_len = max + [0, 1, 64][c.buf as usize % 3];
    if let Some((k, kind)) = c.bad {
        let k = k as usize % pkts.len();
        match kind % 3 {
            0 => pkts[k][5] ^= 0x40,
            // any of the three non-zero settings of the two most significant bits
            1 => pkts[k][0] |= [0x80u8, 0x40, 0xC0][(pkts[k].len() / 4 + k) % 3],
            _ => {
                // make packet k strictly larger than a buffer that still holds every other packet
                let others = pkts
                    .iter()
                    .enumerate()
                    .filter(|(i, _)| *i != k)
                    .map(|(_, p)| p.len())
                    .max()
                    .unwrap_or(20)
                    .max(20);
                buf_len = others + [0, 1, 64][c.buf as usize % 3];
                let new_len = pkts[k].len().max((buf_len + 4) / 4 * 4);
                pkts[k].resize(new_len, 0);
                let l = (new_len - 20) as u16;
                pkts[k][2..4].copy_from_slice(&l.to_be_bytes());
            }
        }
    }
    let mut stream = Vec::new();
    let mut starts = Vec::new();
    for p in &pkts {
        starts.push(stream.len());
        stream.extend_from_slice(p);
    }
    if c.partial > 0 && c.bad.is_none() {
        let p = &c.pkts[0];
        let n = (c.partial as usize % p.len()).max(1);
        starts.push(stream.len());
        stream.extend_from_slice(&p[..n]);
    }
    (stream, buf_len, starts)
}

fn nontrivial_chunking(chunks: &[usize], starts: &[usize]) -> bool {
    if chunks.iter().any(|c| *c == 0) {
        return true;
    }
    let mut pos = 0;
    for c in chunks.iter().take(chunks.len().saturating_sub(1)) {
        pos += c;
        if starts.iter().skip(1).any(|s| pos > *s && pos < *s + 20) {
            return true;
        }
    }
    false
}

fn cuts_to_chunks(n: usize, cuts: &[usize]) -> Vec<usize> {
    let mut c: Vec<usize> = cuts.iter().map(|x| (*x).min(n)).collect();
    c.sort();
    let mut out = Vec::new();
    let mut prev = 0;
    for x in c {
        out.push(x - prev);
        prev = x;
    }
    out.push(n - prev);
    out
}

pub fn check_stream(c: &StreamCase, thorough: bool, st: &mut Stats) -> Result<(), String> {
    if c.pkts.is_empty() || c.pkts.iter().any(|p| p.len() < 20) {
        return Ok(());
    }
    let (stream, buf_len, starts) = build_stream(c);
    let n = stream.len();
    let (exp, exp_consumed) = expected(&stream, buf_len);
    st.class(&format!("packets:{}", c.pkts.len()));
    st.class(match c.bad {
        None => "stream:clean",
        Some((_, k)) => ["stream:bad-cookie", "stream:top-bits", "stream:packet-exceeds-buffer"][k as usize % 3],
    });
    st.class(["buffer:exact", "buffer:+1", "buffer:+64"][c.buf as usize % 3]);
    if c.pkts.iter().any(|p| p.len() == 20) {
        st.class("has-zero-length-message");
    }
    let mut chunkings: Vec<Vec<usize>> = vec![vec![n], vec![1; n]];
    for cut in &c.cuts {
        let cuts: Vec<usize> = cut.iter().map(|x| *x as usize % (n + 1)).collect();
        chunkings.push(cuts_to_chunks(n, &cuts));
    }
    let (lim2, lim3) = if thorough { (300, 80) } else { (120, 48) };
    if n <= lim2 {
        st.class("2-cut:exhaustive");
        for a in 0..=n {
            for b in a..=n {
                chunkings.push(vec![a, b - a, n - b]);
            }
        }
    }
    if n <= lim3 {
        st.class("3-cut:exhaustive");
        for a in 0..=n {
            for b in a..=n {
                for d in b..=n {
                    chunkings.push(vec![a, b - a, d - b, n - d]);
                }
            }
        }
    }
    st.evaluations += chunkings.len() as u64 - 1;
    let mut first_got: Option<Vec<Outcome>> = None;
    for chunks in &chunkings {
        let (got, consumed) = drive(&stream, chunks, buf_len).map_err(|e| format!("chunking {:?}: {}", short(chunks), e))?;
        // the property fixes the error kind, the chunk at which it is raised (consumed-so-far) and that the buffer comes
        // back; the `size` field and the buffer's contents only have to be the same for every chunking
        let norm = |v: &[Outcome], reference: &[Outcome]| -> Vec<Outcome> {
            v.iter()
                .enumerate()
                .map(|(i, o)| match (o, reference.get(i)) {
                    (Outcome::Error { kind, total_consumed, buf_len, .. }, Some(Outcome::Error { size, header, .. })) => Outcome::Error {
                        kind,
                        size: *size,
                        total_consumed: *total_consumed,
                        header: header.clone(),
                        buf_len: *buf_len,
                    },
                    (o, _) => o.clone(),
                })
                .collect()
        };
        if first_got.is_none() {
            first_got = Some(got.clone());
        }
        let reference = first_got.clone().unwrap();
        let exp_n = norm(&exp, &reference);
        if let (Some(Outcome::Error { size: s1, header: h1, .. }), Some(Outcome::Error { size: s2, header: h2, .. })) = (got.last(), reference.last()) {
            if s1 != s2 || h1 != h2 {
                return Err(format!("chunking {:?}: error reports size {} / buffer prefix differently from the unchunked feed (size {})", short(chunks), s1, s2));
            }
        }
        let exp = exp_n;
        if got != exp {
            return Err(format!(
                "chunking {:?} of a {}-byte stream (buffer {}): got {} expected {}",
                short(chunks),
                n,
                buf_len,
                describe(&got),
                describe(&exp)
            ));
        }
        if consumed != exp_consumed {
            return Err(format!(
                "chunking {:?}: consumed counts add up to {}, expected {}",
                short(chunks),
                consumed,
                exp_consumed
            ));
        }
        if nontrivial_chunking(chunks, &starts) {
            st.nontrivial(&(&stream, chunks));
            st.class("cut:inside-later-header-or-empty-chunk");
        } else {
            st.class("cut:other");
        }
    }
    if st.wants_sample() && c.pkts.len() >= 2 {
        st.sample(json!({"packet_lens": c.pkts.iter().map(|p| p.len()).collect::<Vec<_>>(), "bad": c.bad, "buffer": buf_len,
            "chunkings": chunkings.len(), "example_chunking": short(&chunkings[2.min(chunkings.len()-1)])}));
    }
    Ok(())
}

fn short(c: &[usize]) -> Vec<usize> {
    if c.len() > 12 {
        let mut v = c[..12].to_vec();
        v.push(usize::MAX);
        v
    } else {
        c.to_vec()
    }
}

fn describe(o: &[Outcome]) -> String {
    o.iter()
        .map(|x| match x {
            Outcome::Packet(p) => format!("packet({} bytes, hash {:08x})", p.len(), hash_of(p) as u32),
            Outcome::Error {
                kind,
                size,
                total_consumed,
                buf_len,
                ..
            } => format!("{}(size {}, consumed-so-far {}, buffer {})", kind, size, total_consumed, buf_len),
        })
        .collect::<Vec<_>>()
        .join(", ")
}

/// Fuzz entry: [buffer selector][n][n cut bytes][stream...]; arbitrary stream bytes, compared with the reference splitter.
pub fn check_raw_stream(data: &[u8]) -> Result<(), String> {
    if data.len() < 2 {
        return Ok(());
    }
    let buf_len = 20 + (data[0] as usize) * 3;
    let n = (data[1] as usize % 9).min(data.len() - 2);
    let cuts = &data[2..2 + n];
    let stream = &data[2 + n..];
    let mut chunks = Vec::new();
    let mut left = stream.len();
    for c in cuts {
        let l = (*c as usize).min(left);
        chunks.push(l);
        left -= l;
    }
    chunks.push(left);
    let (exp, exp_consumed) = expected(stream, buf_len);
    let (got, consumed) = match guard(|| drive(stream, &chunks, buf_len)) {
        Guard::Ok(r) => r?,
        Guard::LibPanic(m) => return Err(format!("reassembler panicked: {}", m)),
        Guard::HarnessPanic(m) => return Err(format!("HARNESS-{}", m)),
    };
    let strip = |v: &[Outcome]| -> Vec<Outcome> {
        v.iter()
            .map(|o| match o {
                Outcome::Error { kind, total_consumed, buf_len, .. } => Outcome::Error { kind, size: 0, total_consumed: *total_consumed, header: Vec::new(), buf_len: *buf_len },
                o => o.clone(),
            })
            .collect()
    };
    if strip(&got) != strip(&exp) || consumed != exp_consumed {
        return Err(format!("chunking {:?} (buffer {}): got {} / consumed {}, expected {} / {}", short(&chunks), buf_len, describe(&got), consumed, describe(&exp), exp_consumed));
    }
    Ok(())
}

pub fn arb_packet() -> BoxedStrategy<Vec<u8>> {
    prop_oneof![
        2 => arb_msg(GenOpts { max_attrs: 0, tails: false, ..GenOpts::default() }),
        5 => arb_msg(GenOpts { max_attrs: 2, data_max: 30, padding_max: 30, tails: true, ..GenOpts::default() }),
        2 => arb_msg(GenOpts { max_attrs: 6, data_max: 400, padding_max: 400, ..GenOpts::default() }),
    ]
    .prop_map(|m| {
        let mut m = m;
        // keep strings short so that many streams fall under the exhaustive chunking limits
        while attr_bytes(&m) > 1000 && !m.attrs.is_empty() {
            m.attrs.pop();
        }
        ref_encode(&m, &mut Noise::zero()).bytes
    })
    .boxed()
}

pub fn arb_case() -> BoxedStrategy<StreamCase> {
    (
        proptest::collection::vec(arb_packet(), 1..=3),
        prop_oneof![3 => Just(None), 2 => (any::<u8>(), 0u8..3).prop_map(Some)],
        0u8..3,
        proptest::collection::vec(proptest::collection::vec(any::<u32>(), 1..8), 4),
        prop_oneof![2 => Just(0u16), 1 => any::<u16>()],
    )
        .prop_map(|(pkts, bad, buf, cuts, partial)| StreamCase {
            pkts,
            bad,
            buf,
            cuts,
            partial,
        })
        .boxed()
}

/// Packets at the top of the 16-bit length range (the reassembler does not look inside the attribute area, so filler
/// bytes do), with buffers around the packet size and around 65,535, in a handful of chunkings.
#[derive(Clone, Debug, Hash, Serialize, Deserialize)]
pub struct BigCase {
    pub attr_len: u16,
    /// buffer length relative selection: 0 exact, 1 exact+1, 2 exact-1, 3 65_535, 4 65_536, 5 exact+64
    pub buf: u8,
    /// 0 whole, 1 header then rest, 2 split header (7 + 13 + rest), 3 three parts with an empty chunk, 4 packet followed by a 20-byte one
    pub chunking: u8,
}

pub fn check_big(c: &BigCase, st: &mut Stats) -> Result<(), String> {
    let total = 20 + c.attr_len as usize;
    let mut pkt = vec![0u8; total];
    pkt[0..2].copy_from_slice(&0x0001u16.to_be_bytes());
    pkt[2..4].copy_from_slice(&c.attr_len.to_be_bytes());
    pkt[4..8].copy_from_slice(&MAGIC.to_be_bytes());
    for (i, b) in pkt.iter_mut().enumerate().skip(8) {
        *b = (i * 31 + 7) as u8;
    }
    let mut stream = pkt.clone();
    if c.chunking == 4 {
        let mut small = vec![0u8; 20];
        small[0..2].copy_from_slice(&0x0101u16.to_be_bytes());
        small[4..8].copy_from_slice(&MAGIC.to_be_bytes());
        stream.extend_from_slice(&small);
    }
    let buf_len = match c.buf % 6 {
        0 => total,
        1 => total + 1,
        2 => total - 1,
        3 => 65_535,
        4 => 65_536,
        _ => total + 64,
    };
    let n = stream.len();
    let chunks: Vec<usize> = match c.chunking % 5 {
        0 | 4 => vec![n],
        1 => vec![20, n - 20],
        2 => vec![7, 13, n - 20],
        _ => vec![20, 0, n / 2 - 20, n - n / 2],
    };
    let (exp, exp_consumed) = expected(&stream, buf_len);
    let (got, consumed) = drive(&stream, &chunks, buf_len).map_err(|e| format!("{:?}: {}", c, e))?;
    // as in the generated streams: of an error only the kind, the chunk at which it is raised and the returned buffer's
    // length are fixed by the property (size / contents are compared across chunkings there)
    let got: Vec<Outcome> = got
        .iter()
        .zip(exp.iter().chain(std::iter::repeat(&Outcome::Packet(Vec::new()))))
        .map(|(g, e)| match (g, e) {
            (Outcome::Error { kind, total_consumed, buf_len, .. }, Outcome::Error { size, header, .. }) => {
                Outcome::Error { kind, size: *size, total_consumed: *total_consumed, header: header.clone(), buf_len: *buf_len }
            }
            (g, _) => g.clone(),
        })
        .collect();
    if got != exp {
        return Err(format!("{:?} (packet {} bytes, buffer {}): got {} expected {}", c, total, buf_len, describe(&got), describe(&exp)));
    }
    if consumed != exp_consumed {
        return Err(format!("{:?}: consumed {} expected {}", c, consumed, exp_consumed));
    }
    st.class(if total > buf_len { "big:exceeds-buffer" } else { "big:fits" });
    st.nontrivial(c);
    Ok(())
}

pub fn big_cases() -> Vec<BigCase> {
    let mut v = Vec::new();
    let mut lens: Vec<u16> = (65_500u16..=65_535).collect();
    lens.extend([32_764u16, 32_768, 40_000, 65_000]);
    for attr_len in lens {
        for buf in 0u8..6 {
            for chunking in 0u8..5 {
                v.push(BigCase { attr_len, buf, chunking });
            }
        }
    }
    v
}

pub fn run(ctx: &Ctx) -> RunResult {
    let mut rr = RunResult::new(RULE);
    rr.assumptions = vec![
        "after a Decoded result the controller continues with a fresh decoder and the rest of the chunk (the API consumes the decoder)".into(),
        "a MoreBytesNeeded result means the whole chunk was consumed".into(),
    ];
    let thorough = ctx.tier == Tier::Thorough;
    rr.absorb(run_prop(ctx, "stream", ctx.pick(8_000, 60_000), arb_case, |c, st| check_stream(c, thorough, st)));
    let big = big_cases();
    rr.absorb(run_enum(ctx, "big", &big, |c, st| check_big(c, st)));
    rr
}

pub fn replay(ctx: &Ctx, check: &str, case: &Value) -> Result<(), String> {
    let mut st = Stats::default();
    match check {
        "stream" => {
            let c: StreamCase = serde_json::from_value(case.clone()).map_err(|e| format!("HARNESS-bad case: {}", e))?;
            let _ = ctx;
            guard_str(|| check_stream(&c, true, &mut st))?
        }
        "big" => {
            let c: BigCase = serde_json::from_value(case.clone()).map_err(|e| format!("HARNESS-bad case: {}", e))?;
            guard_str(|| check_big(&c, &mut st))?
        }
        _ => Err(format!("HARNESS-unknown check {}", check)),
    }
}
