use rustun_verif::report::*;
use rustun_verif::sim::*;
fn main() {
    let p = std::env::args().nth(1).unwrap();
    let v: serde_json::Value = serde_json::from_str(&std::fs::read_to_string(p).unwrap()).unwrap();
    let h: History = serde_json::from_value(v["case"].clone()).unwrap();
    let ctx = Ctx::new("C07", Tier::Quick);
    let mut st = Stats::default();
    let r = run_history(&h, &["C07"], &ctx, &mut st, true);
    println!("result ok={:?} err={:?}", r.as_ref().map(|s| s.as_ref().map(|s| (s.now, s.reqs.len()))).ok(), r.as_ref().err());
    println!("{:?}", st.classes);
}
