//! Independent reference STUN codec written from RFC 8489 §5/§14, RFC 8445 §16.1,
//! RFC 8656 §18, RFC 5780 §7 and RFC 8016 §3 — not from the library source.

use crate::refcrypto;
use serde::{Deserialize, Serialize};

pub const MAGIC: u32 = 0x2112_A442;
pub const FP_XOR: u32 = 0x5354_554e;

// IANA attribute type codes
pub const T_MAPPED_ADDRESS: u16 = 0x0001;
pub const T_CHANGE_REQUEST: u16 = 0x0003;
pub const T_USERNAME: u16 = 0x0006;
pub const T_MI: u16 = 0x0008;
pub const T_ERROR_CODE: u16 = 0x0009;
pub const T_UNKNOWN_ATTRIBUTES: u16 = 0x000A;
pub const T_CHANNEL_NUMBER: u16 = 0x000C;
pub const T_LIFETIME: u16 = 0x000D;
pub const T_XOR_PEER_ADDRESS: u16 = 0x0012;
pub const T_DATA: u16 = 0x0013;
pub const T_REALM: u16 = 0x0014;
pub const T_NONCE: u16 = 0x0015;
pub const T_XOR_RELAYED_ADDRESS: u16 = 0x0016;
pub const T_REQUESTED_ADDRESS_FAMILY: u16 = 0x0017;
pub const T_EVEN_PORT: u16 = 0x0018;
pub const T_REQUESTED_TRANSPORT: u16 = 0x0019;
pub const T_DONT_FRAGMENT: u16 = 0x001A;
pub const T_MI_SHA256: u16 = 0x001C;
pub const T_PASSWORD_ALGORITHM: u16 = 0x001D;
pub const T_USERHASH: u16 = 0x001E;
pub const T_XOR_MAPPED_ADDRESS: u16 = 0x0020;
pub const T_RESERVATION_TOKEN: u16 = 0x0022;
pub const T_PRIORITY: u16 = 0x0024;
pub const T_USE_CANDIDATE: u16 = 0x0025;
pub const T_PADDING: u16 = 0x0026;
pub const T_RESPONSE_PORT: u16 = 0x0027;
pub const T_ADDITIONAL_ADDRESS_FAMILY: u16 = 0x8000;
pub const T_ADDRESS_ERROR_CODE: u16 = 0x8001;
pub const T_PASSWORD_ALGORITHMS: u16 = 0x8002;
pub const T_ICMP: u16 = 0x8004;
pub const T_SOFTWARE: u16 = 0x8022;
pub const T_ALTERNATE_SERVER: u16 = 0x8023;
pub const T_FINGERPRINT: u16 = 0x8028;
pub const T_ICE_CONTROLLED: u16 = 0x8029;
pub const T_ICE_CONTROLLING: u16 = 0x802A;
pub const T_RESPONSE_ORIGIN: u16 = 0x802B;
pub const T_OTHER_ADDRESS: u16 = 0x802C;
pub const T_MOBILITY_TICKET: u16 = 0x8030;

pub const KNOWN_TYPES: [u16; 38] = [
    T_MAPPED_ADDRESS,
    T_CHANGE_REQUEST,
    T_USERNAME,
    T_MI,
    T_ERROR_CODE,
    T_UNKNOWN_ATTRIBUTES,
    T_CHANNEL_NUMBER,
    T_LIFETIME,
    T_XOR_PEER_ADDRESS,
    T_DATA,
    T_REALM,
    T_NONCE,
    T_XOR_RELAYED_ADDRESS,
    T_REQUESTED_ADDRESS_FAMILY,
    T_EVEN_PORT,
    T_REQUESTED_TRANSPORT,
    T_DONT_FRAGMENT,
    T_MI_SHA256,
    T_PASSWORD_ALGORITHM,
    T_USERHASH,
    T_XOR_MAPPED_ADDRESS,
    T_RESERVATION_TOKEN,
    T_PRIORITY,
    T_USE_CANDIDATE,
    T_PADDING,
    T_RESPONSE_PORT,
    T_ADDITIONAL_ADDRESS_FAMILY,
    T_ADDRESS_ERROR_CODE,
    T_PASSWORD_ALGORITHMS,
    T_ICMP,
    T_SOFTWARE,
    T_ALTERNATE_SERVER,
    T_FINGERPRINT,
    T_ICE_CONTROLLED,
    T_ICE_CONTROLLING,
    T_RESPONSE_ORIGIN,
    T_OTHER_ADDRESS,
    T_MOBILITY_TICKET,
];

pub fn is_known_type(t: u16) -> bool {
    KNOWN_TYPES.contains(&t)
}

#[derive(Clone, Debug, PartialEq, Eq, Hash, Serialize, Deserialize)]
pub enum RAddr {
    V4([u8; 4], u16),
    V6([u8; 16], u16),
}

#[derive(Clone, Debug, PartialEq, Eq, Hash, Serialize, Deserialize)]
pub struct RAlg {
    pub id: u16,
    pub params: Vec<u8>,
}

#[derive(Clone, Debug, PartialEq, Eq, Hash, Serialize, Deserialize)]
pub enum KeySpec {
    /// short-term: key = OpaqueString(password)
    ShortTerm(String),
    /// long-term: key = H(user ":" OpaqueString(realm) ":" OpaqueString(password)), alg 1 = MD5, 2 = SHA-256
    LongTerm {
        user: String,
        realm: String,
        password: String,
        alg: u16,
    },
    Raw(Vec<u8>),
}

/// Own OpaqueString mapping restricted to the alphabets the generators emit:
/// non-ASCII spaces (Unicode Zs) map to U+0020, then a small hand-verified NFC table.
pub fn ref_opaque(s: &str) -> String {
    let mut out = String::with_capacity(s.len());
    let mut prev: Option<char> = None;
    for c in s.chars() {
        // composition exclusions stay decomposed under NFC
        let base = match c as u32 {
            0x0958 => Some('\u{915}'),
            0x095B => Some('\u{91c}'),
            _ => None,
        };
        if let Some(b) = base {
            out.push(b);
            out.push('\u{93c}');
            prev = Some('\u{93c}');
            continue;
        }
        let c = match c as u32 {
            0x00A0 | 0x1680 | 0x2000..=0x200A | 0x202F | 0x205F | 0x3000 => ' ',
            // NFC singletons
            0x212B => '\u{c5}',
            0x2126 => '\u{3a9}',
            0x212A => 'K',
            _ => c,
        };
        if let Some(p) = prev {
            let composed = match (p, c as u32) {
                ('e', 0x0301) => Some('\u{e9}'),
                ('a', 0x0300) => Some('\u{e0}'),
                ('o', 0x0308) => Some('\u{f6}'),
                ('n', 0x0303) => Some('\u{f1}'),
                ('A', 0x030A) => Some('\u{c5}'),
                _ => None,
            };
            if let Some(cc) = composed {
                out.pop();
                out.push(cc);
                prev = Some(cc);
                continue;
            }
        }
        out.push(c);
        prev = Some(c);
    }
    out
}

impl KeySpec {
    pub fn key_bytes(&self) -> Vec<u8> {
        match self {
            KeySpec::ShortTerm(p) => ref_opaque(p).into_bytes(),
            KeySpec::LongTerm {
                user,
                realm,
                password,
                alg,
            } => {
                let s = format!("{}:{}:{}", user, ref_opaque(realm), ref_opaque(password));
                if *alg == 2 {
                    refcrypto::sha256(s.as_bytes()).to_vec()
                } else {
                    refcrypto::md5(s.as_bytes()).to_vec()
                }
            }
            KeySpec::Raw(b) => b.clone(),
        }
    }
}

#[derive(Clone, Debug, PartialEq, Eq, Hash, Serialize, Deserialize)]
pub enum Fault {
    Correct,
    /// flip bit (index modulo the MAC/CRC bit length)
    FlipBit(u16),
    /// compute under a key that differs in its last byte
    WrongKey,
}

#[derive(Clone, Debug, PartialEq, Eq, Hash, Serialize, Deserialize)]
pub enum MacSpec {
    Keyed { key: KeySpec, fault: Fault },
    /// raw attribute value as found on / to be put on the wire
    Wire(Vec<u8>),
}

#[derive(Clone, Debug, PartialEq, Eq, Hash, Serialize, Deserialize)]
pub enum FpSpec {
    Computed(Fault),
    Wire(Vec<u8>),
}

#[derive(Clone, Debug, PartialEq, Eq, Hash, Serialize, Deserialize)]
pub enum UserHashSpec {
    Names { user: String, realm: String },
    Bytes(Vec<u8>),
}

#[derive(Clone, Debug, PartialEq, Eq, Hash, Serialize, Deserialize)]
pub enum RAttr {
    MappedAddress(RAddr),
    AlternateServer(RAddr),
    OtherAddress(RAddr),
    ResponseOrigin(RAddr),
    XorMappedAddress(RAddr),
    XorPeerAddress(RAddr),
    XorRelayedAddress(RAddr),
    UserName(String),
    Realm(String),
    Nonce(String),
    Software(String),
    Padding(String),
    ErrorCode { code: u16, reason: String },
    UnknownAttributes(Vec<u16>),
    UserHash(UserHashSpec),
    PasswordAlgorithm(RAlg),
    PasswordAlgorithms(Vec<RAlg>),
    IceControlled(u64),
    IceControlling(u64),
    Priority(u32),
    UseCandidate,
    ChannelNumber(u16),
    LifeTime(u32),
    Data(Vec<u8>),
    RequestedAddressFamily(u8),
    AdditionalAddressFamily(u8),
    EvenPort(bool),
    DontFragment,
    RequestedTransport(u8),
    ReservationToken([u8; 8]),
    AddressErrorCode { family: u8, code: u16, reason: String },
    Icmp { typ: u8, code: u16, data: [u8; 4] },
    MobilityTicket(Vec<u8>),
    ChangeRequest { ip: bool, port: bool },
    ResponsePort(u16),
    Raw { typ: u16, value: Vec<u8> },
    Mi(MacSpec),
    MiSha256(MacSpec),
    Fp(FpSpec),
}

impl RAttr {
    pub fn type_code(&self) -> u16 {
        use RAttr::*;
        match self {
            MappedAddress(_) => T_MAPPED_ADDRESS,
            AlternateServer(_) => T_ALTERNATE_SERVER,
            OtherAddress(_) => T_OTHER_ADDRESS,
            ResponseOrigin(_) => T_RESPONSE_ORIGIN,
            XorMappedAddress(_) => T_XOR_MAPPED_ADDRESS,
            XorPeerAddress(_) => T_XOR_PEER_ADDRESS,
            XorRelayedAddress(_) => T_XOR_RELAYED_ADDRESS,
            UserName(_) => T_USERNAME,
            Realm(_) => T_REALM,
            Nonce(_) => T_NONCE,
            Software(_) => T_SOFTWARE,
            Padding(_) => T_PADDING,
            ErrorCode { .. } => T_ERROR_CODE,
            UnknownAttributes(_) => T_UNKNOWN_ATTRIBUTES,
            UserHash(_) => T_USERHASH,
            PasswordAlgorithm(_) => T_PASSWORD_ALGORITHM,
            PasswordAlgorithms(_) => T_PASSWORD_ALGORITHMS,
            IceControlled(_) => T_ICE_CONTROLLED,
            IceControlling(_) => T_ICE_CONTROLLING,
            Priority(_) => T_PRIORITY,
            UseCandidate => T_USE_CANDIDATE,
            ChannelNumber(_) => T_CHANNEL_NUMBER,
            LifeTime(_) => T_LIFETIME,
            Data(_) => T_DATA,
            RequestedAddressFamily(_) => T_REQUESTED_ADDRESS_FAMILY,
            AdditionalAddressFamily(_) => T_ADDITIONAL_ADDRESS_FAMILY,
            EvenPort(_) => T_EVEN_PORT,
            DontFragment => T_DONT_FRAGMENT,
            RequestedTransport(_) => T_REQUESTED_TRANSPORT,
            ReservationToken(_) => T_RESERVATION_TOKEN,
            AddressErrorCode { .. } => T_ADDRESS_ERROR_CODE,
            Icmp { .. } => T_ICMP,
            MobilityTicket(_) => T_MOBILITY_TICKET,
            ChangeRequest { .. } => T_CHANGE_REQUEST,
            ResponsePort(_) => T_RESPONSE_PORT,
            Raw { typ, .. } => *typ,
            Mi(_) => T_MI,
            MiSha256(_) => T_MI_SHA256,
            Fp(_) => T_FINGERPRINT,
        }
    }

    pub fn kind_name(&self) -> &'static str {
        use RAttr::*;
        match self {
            MappedAddress(_) => "MAPPED-ADDRESS",
            AlternateServer(_) => "ALTERNATE-SERVER",
            OtherAddress(_) => "OTHER-ADDRESS",
            ResponseOrigin(_) => "RESPONSE-ORIGIN",
            XorMappedAddress(_) => "XOR-MAPPED-ADDRESS",
            XorPeerAddress(_) => "XOR-PEER-ADDRESS",
            XorRelayedAddress(_) => "XOR-RELAYED-ADDRESS",
            UserName(_) => "USERNAME",
            Realm(_) => "REALM",
            Nonce(_) => "NONCE",
            Software(_) => "SOFTWARE",
            Padding(_) => "PADDING",
            ErrorCode { .. } => "ERROR-CODE",
            UnknownAttributes(_) => "UNKNOWN-ATTRIBUTES",
            UserHash(_) => "USERHASH",
            PasswordAlgorithm(_) => "PASSWORD-ALGORITHM",
            PasswordAlgorithms(_) => "PASSWORD-ALGORITHMS",
            IceControlled(_) => "ICE-CONTROLLED",
            IceControlling(_) => "ICE-CONTROLLING",
            Priority(_) => "PRIORITY",
            UseCandidate => "USE-CANDIDATE",
            ChannelNumber(_) => "CHANNEL-NUMBER",
            LifeTime(_) => "LIFETIME",
            Data(_) => "DATA",
            RequestedAddressFamily(_) => "REQUESTED-ADDRESS-FAMILY",
            AdditionalAddressFamily(_) => "ADDITIONAL-ADDRESS-FAMILY",
            EvenPort(_) => "EVEN-PORT",
            DontFragment => "DONT-FRAGMENT",
            RequestedTransport(_) => "REQUESTED-TRANSPORT",
            ReservationToken(_) => "RESERVATION-TOKEN",
            AddressErrorCode { .. } => "ADDRESS-ERROR-CODE",
            Icmp { .. } => "ICMP",
            MobilityTicket(_) => "MOBILITY-TICKET",
            ChangeRequest { .. } => "CHANGE-REQUEST",
            ResponsePort(_) => "RESPONSE-PORT",
            Raw { .. } => "RAW",
            Mi(_) => "MESSAGE-INTEGRITY",
            MiSha256(_) => "MESSAGE-INTEGRITY-SHA256",
            Fp(_) => "FINGERPRINT",
        }
    }
}

#[derive(Clone, Debug, PartialEq, Eq, Hash, Serialize, Deserialize)]
pub struct RMsg {
    pub method: u16,
    /// 0 request, 1 indication, 2 success response, 3 error response
    pub class: u8,
    pub tid: [u8; 12],
    pub attrs: Vec<RAttr>,
}

/// RFC 8489 §5: message type bits  M11..M7 C1 M6..M4 C0 M3..M0
pub fn msg_type(method: u16, class: u8) -> u16 {
    let m = method & 0x0FFF;
    let c = class as u16 & 0x3;
    ((m & 0x0F80) << 2) | ((m & 0x0070) << 1) | (m & 0x000F) | ((c & 0x2) << 7) | ((c & 0x1) << 4)
}

pub fn split_msg_type(t: u16) -> (u16, u8) {
    let t = t & 0x3FFF;
    let class = (((t >> 8) & 1) << 1) | ((t >> 4) & 1);
    let method = ((t >> 2) & 0x0F80) | ((t >> 1) & 0x0070) | (t & 0x000F);
    (method, class as u8)
}

/// Values for bits and bytes the RFCs declare "ignored on reception".
#[derive(Clone, Debug, PartialEq, Eq, Hash, Serialize, Deserialize)]
pub enum NoiseMode {
    Zero,
    Ones,
    Random(u64),
    /// only the k-th ignorable bit of the message is set
    Single(u32),
    /// every padding byte has this value, reserved bits are zero (what the encoder's custom-padding option produces)
    PadOnly(u8),
}

pub struct Noise {
    mode: NoiseMode,
    state: u64,
    pub bits_seen: u32,
    pub bits_set: u32,
}

impl Noise {
    pub fn new(mode: NoiseMode) -> Self {
        let state = match &mode {
            NoiseMode::Random(s) => s.wrapping_mul(0x9E3779B97F4A7C15) | 1,
            _ => 0,
        };
        Noise {
            mode,
            state,
            bits_seen: 0,
            bits_set: 0,
        }
    }
    pub fn zero() -> Self {
        Noise::new(NoiseMode::Zero)
    }
    fn next(&mut self) -> u64 {
        // xorshift64*
        let mut x = self.state;
        x ^= x >> 12;
        x ^= x << 25;
        x ^= x >> 27;
        self.state = x;
        x.wrapping_mul(0x2545F4914F6CDD1D)
    }
    /// nbits ≤ 32 ignorable bits; returns their value (right-aligned)
    pub fn bits(&mut self, nbits: u32) -> u32 {
        let mask: u32 = if nbits >= 32 { u32::MAX } else { (1u32 << nbits) - 1 };
        let v = match self.mode {
            NoiseMode::Zero => 0,
            NoiseMode::Ones => mask,
            NoiseMode::Random(_) => (self.next() >> 16) as u32 & mask,
            NoiseMode::Single(k) => {
                if k >= self.bits_seen && k < self.bits_seen + nbits {
                    1u32 << (k - self.bits_seen)
                } else {
                    0
                }
            }
            NoiseMode::PadOnly(_) => 0,
        };
        self.bits_seen += nbits;
        self.bits_set += v.count_ones();
        v
    }
    pub fn byte(&mut self) -> u8 {
        self.bits(8) as u8
    }
    /// a padding byte (attribute padding or padding between PASSWORD-ALGORITHMS entries)
    pub fn pad(&mut self) -> u8 {
        if let NoiseMode::PadOnly(v) = self.mode {
            self.bits_seen += 8;
            self.bits_set += v.count_ones();
            return v;
        }
        self.byte()
    }
}

#[derive(Clone, Debug, PartialEq, Eq, Serialize, Deserialize)]
pub struct Tlv {
    pub typ: u16,
    pub hdr_off: usize,
    pub val_off: usize,
    pub val_len: usize,
    pub pad_len: usize,
}

#[derive(Clone, Debug)]
pub struct Encoded {
    pub bytes: Vec<u8>,
    pub tlv: Vec<Tlv>,
    pub noise_bits: u32,
    pub noise_set: u32,
}

fn pad4(n: usize) -> usize {
    (4 - (n % 4)) % 4
}

fn xor_key(tid: &[u8; 12]) -> [u8; 16] {
    let mut k = [0u8; 16];
    k[..4].copy_from_slice(&MAGIC.to_be_bytes());
    k[4..].copy_from_slice(tid);
    k
}

fn enc_addr(a: &RAddr, xor: Option<&[u8; 12]>, noise: &mut Noise) -> Vec<u8> {
    let mut v = Vec::new();
    v.push(noise.byte()); // first 8 bits: MUST be ignored by receivers
    let key = xor.map(xor_key);
    match a {
        RAddr::V4(ip, port) => {
            v.push(1);
            let p = if key.is_some() { port ^ (MAGIC >> 16) as u16 } else { *port };
            v.extend_from_slice(&p.to_be_bytes());
            for (i, b) in ip.iter().enumerate() {
                v.push(match &key {
                    Some(k) => b ^ k[i],
                    None => *b,
                });
            }
        }
        RAddr::V6(ip, port) => {
            v.push(2);
            let p = if key.is_some() { port ^ (MAGIC >> 16) as u16 } else { *port };
            v.extend_from_slice(&p.to_be_bytes());
            for (i, b) in ip.iter().enumerate() {
                v.push(match &key {
                    Some(k) => b ^ k[i],
                    None => *b,
                });
            }
        }
    }
    v
}

fn enc_error(code: u16, reason: &str, first_byte: Option<u8>, noise: &mut Noise) -> Vec<u8> {
    let mut v = Vec::new();
    match first_byte {
        // ADDRESS-ERROR-CODE: family(8) reserved(13) class(3) number(8)
        Some(f) => {
            v.push(f);
            v.push(noise.byte());
        }
        // ERROR-CODE: reserved(21) class(3) number(8)
        None => {
            v.push(noise.byte());
            v.push(noise.byte());
        }
    }
    let hi5 = noise.bits(5) as u8;
    v.push((hi5 << 3) | ((code / 100) as u8 & 0x7));
    v.push((code % 100) as u8);
    v.extend_from_slice(reason.as_bytes());
    v
}

fn enc_alg(a: &RAlg) -> Vec<u8> {
    let mut v = Vec::new();
    v.extend_from_slice(&a.id.to_be_bytes());
    v.extend_from_slice(&(a.params.len() as u16).to_be_bytes());
    v.extend_from_slice(&a.params);
    v
}

pub fn user_hash_bytes(user: &str, realm: &str) -> [u8; 32] {
    let s = format!("{}:{}", ref_opaque(user), ref_opaque(realm));
    refcrypto::sha256(s.as_bytes())
}

fn apply_mac_fault(mac: &mut [u8], fault: &Fault) {
    if let Fault::FlipBit(i) = fault {
        let nbits = mac.len() * 8;
        let i = *i as usize % nbits;
        mac[i / 8] ^= 0x80 >> (i % 8);
    }
}

fn faulty_key(key: &KeySpec, fault: &Fault) -> Vec<u8> {
    let mut k = key.key_bytes();
    if let Fault::WrongKey = fault {
        if k.is_empty() {
            k.push(1);
        } else {
            let n = k.len() - 1;
            k[n] ^= 0x01;
        }
    }
    k
}

/// Encode a message exactly as the RFCs lay it out.
pub fn ref_encode(msg: &RMsg, noise: &mut Noise) -> Encoded {
    let mut out: Vec<u8> = Vec::new();
    out.extend_from_slice(&msg_type(msg.method, msg.class).to_be_bytes());
    out.extend_from_slice(&[0, 0]);
    out.extend_from_slice(&MAGIC.to_be_bytes());
    out.extend_from_slice(&msg.tid);
    let mut tlvs = Vec::new();
    for a in &msg.attrs {
        let hdr_off = out.len();
        let value: Vec<u8> = match a {
            RAttr::MappedAddress(x) | RAttr::AlternateServer(x) | RAttr::OtherAddress(x) | RAttr::ResponseOrigin(x) => {
                enc_addr(x, None, noise)
            }
            RAttr::XorMappedAddress(x) | RAttr::XorPeerAddress(x) | RAttr::XorRelayedAddress(x) => {
                enc_addr(x, Some(&msg.tid), noise)
            }
            RAttr::UserName(s) | RAttr::Realm(s) | RAttr::Nonce(s) | RAttr::Software(s) | RAttr::Padding(s) => {
                s.as_bytes().to_vec()
            }
            RAttr::ErrorCode { code, reason } => enc_error(*code, reason, None, noise),
            RAttr::UnknownAttributes(v) => v.iter().flat_map(|t| t.to_be_bytes()).collect(),
            RAttr::UserHash(UserHashSpec::Names { user, realm }) => user_hash_bytes(user, realm).to_vec(),
            RAttr::UserHash(UserHashSpec::Bytes(b)) => b.clone(),
            RAttr::PasswordAlgorithm(alg) => enc_alg(alg),
            RAttr::PasswordAlgorithms(list) => {
                let mut v = Vec::new();
                for (i, alg) in list.iter().enumerate() {
                    let e = enc_alg(alg);
                    let p = pad4(e.len());
                    v.extend_from_slice(&e);
                    if i + 1 < list.len() {
                        for _ in 0..p {
                            v.push(noise.pad());
                        }
                    }
                }
                v
            }
            RAttr::IceControlled(x) | RAttr::IceControlling(x) => x.to_be_bytes().to_vec(),
            RAttr::Priority(x) | RAttr::LifeTime(x) => x.to_be_bytes().to_vec(),
            RAttr::UseCandidate | RAttr::DontFragment => Vec::new(),
            RAttr::ChannelNumber(n) => {
                let mut v = n.to_be_bytes().to_vec();
                let r = noise.bits(16) as u16;
                v.extend_from_slice(&r.to_be_bytes());
                v
            }
            RAttr::Data(d) | RAttr::MobilityTicket(d) => d.clone(),
            RAttr::RequestedAddressFamily(f) | RAttr::AdditionalAddressFamily(f) => {
                vec![*f, noise.byte(), noise.byte(), noise.byte()]
            }
            RAttr::EvenPort(r) => {
                let low = noise.bits(7) as u8;
                vec![(if *r { 0x80 } else { 0 }) | low]
            }
            RAttr::RequestedTransport(p) => vec![*p, noise.byte(), noise.byte(), noise.byte()],
            RAttr::ReservationToken(t) => t.to_vec(),
            RAttr::AddressErrorCode { family, code, reason } => enc_error(*code, reason, Some(*family), noise),
            RAttr::Icmp { typ, code, data } => {
                let mut v = vec![noise.byte(), noise.byte()];
                let tc: u16 = ((*typ as u16 & 0x7F) << 9) | (*code & 0x1FF);
                v.extend_from_slice(&tc.to_be_bytes());
                v.extend_from_slice(data);
                v
            }
            RAttr::ChangeRequest { ip, port } => {
                // RFC 5780 7.2: only the A (0x4) and B (0x2) flags are defined, the other 30 bits are ignored by receivers
                let hi = noise.bits(29);
                let lo = noise.bits(1);
                let x: u32 = (hi << 3) | (if *ip { 0x4 } else { 0 }) | (if *port { 0x2 } else { 0 }) | lo;
                x.to_be_bytes().to_vec()
            }
            RAttr::ResponsePort(p) => p.to_be_bytes().to_vec(),
            RAttr::Raw { value, .. } => value.clone(),
            RAttr::Mi(spec) | RAttr::MiSha256(spec) => {
                let sha256 = matches!(a, RAttr::MiSha256(_));
                let maclen = if sha256 { 32 } else { 20 };
                match spec {
                    MacSpec::Wire(b) => b.clone(),
                    MacSpec::Keyed { key, fault } => {
                        let mut prefix = out.clone();
                        let l = (out.len() - 20 + 4 + maclen) as u16;
                        prefix[2..4].copy_from_slice(&l.to_be_bytes());
                        let k = faulty_key(key, fault);
                        let mut mac = if sha256 {
                            refcrypto::hmac_sha256(&k, &prefix).to_vec()
                        } else {
                            refcrypto::hmac_sha1(&k, &prefix).to_vec()
                        };
                        apply_mac_fault(&mut mac, fault);
                        mac
                    }
                }
            }
            RAttr::Fp(spec) => match spec {
                FpSpec::Wire(b) => b.clone(),
                FpSpec::Computed(fault) => {
                    let mut prefix = out.clone();
                    let l = (out.len() - 20 + 8) as u16;
                    prefix[2..4].copy_from_slice(&l.to_be_bytes());
                    let crc = refcrypto::crc32(&prefix) ^ FP_XOR;
                    let mut v = crc.to_be_bytes().to_vec();
                    match fault {
                        Fault::Correct => {}
                        Fault::FlipBit(_) => apply_mac_fault(&mut v, fault),
                        Fault::WrongKey => v[3] ^= 0x01,
                    }
                    v
                }
            },
        };
        let typ = a.type_code();
        out.extend_from_slice(&typ.to_be_bytes());
        out.extend_from_slice(&(value.len() as u16).to_be_bytes());
        let val_off = out.len();
        out.extend_from_slice(&value);
        let p = pad4(value.len());
        for _ in 0..p {
            out.push(noise.pad());
        }
        tlvs.push(Tlv {
            typ,
            hdr_off,
            val_off,
            val_len: value.len(),
            pad_len: p,
        });
    }
    let l = (out.len() - 20) as u16;
    out[2..4].copy_from_slice(&l.to_be_bytes());
    Encoded {
        bytes: out,
        tlv: tlvs,
        noise_bits: noise.bits_seen,
        noise_set: noise.bits_set,
    }
}

/// Size of the encoded attribute section without encoding (used for 64 KiB targeting).
pub fn attr_bytes(msg: &RMsg) -> usize {
    ref_encode(msg, &mut Noise::zero()).bytes.len() - 20
}

#[derive(Clone, Debug, PartialEq, Eq)]
pub enum RefErr {
    ShortHeader,
    TopBits,
    Cookie,
    Truncated,
    AttrOverrun,
    BadValue(&'static str),
}

#[derive(Clone, Debug, PartialEq, Eq)]
pub struct RWireAttr {
    pub typ: u16,
    pub value: Vec<u8>,
    pub hdr_off: usize,
    pub pad_len: usize,
}

#[derive(Clone, Debug, PartialEq, Eq)]
pub struct RWire {
    pub mtype: u16,
    pub method: u16,
    pub class: u8,
    pub tid: [u8; 12],
    pub attrs: Vec<RWireAttr>,
    pub total: usize,
}

/// Header-only check used to decide "passes the header check" (non-triviality for C03).
pub fn ref_header(buf: &[u8]) -> Result<(u16, u16, [u8; 12]), RefErr> {
    if buf.len() < 20 {
        return Err(RefErr::ShortHeader);
    }
    let t = u16::from_be_bytes([buf[0], buf[1]]);
    if t & 0xC000 != 0 {
        return Err(RefErr::TopBits);
    }
    if u32::from_be_bytes([buf[4], buf[5], buf[6], buf[7]]) != MAGIC {
        return Err(RefErr::Cookie);
    }
    let l = u16::from_be_bytes([buf[2], buf[3]]);
    let mut tid = [0u8; 12];
    tid.copy_from_slice(&buf[8..20]);
    Ok((t, l, tid))
}

/// Raw TLV walk.
pub fn ref_decode(buf: &[u8]) -> Result<RWire, RefErr> {
    let (t, l, tid) = ref_header(buf)?;
    let total = 20 + l as usize;
    if buf.len() < total {
        return Err(RefErr::Truncated);
    }
    let (method, class) = split_msg_type(t);
    let mut attrs = Vec::new();
    let mut pos = 20usize;
    while pos < total {
        if pos + 4 > total {
            return Err(RefErr::AttrOverrun);
        }
        let typ = u16::from_be_bytes([buf[pos], buf[pos + 1]]);
        let vl = u16::from_be_bytes([buf[pos + 2], buf[pos + 3]]) as usize;
        let p = pad4(vl);
        if pos + 4 + vl + p > total {
            return Err(RefErr::AttrOverrun);
        }
        attrs.push(RWireAttr {
            typ,
            value: buf[pos + 4..pos + 4 + vl].to_vec(),
            hdr_off: pos,
            pad_len: p,
        });
        pos += 4 + vl + p;
    }
    Ok(RWire {
        mtype: t,
        method,
        class,
        tid,
        attrs,
        total,
    })
}

/// RFC 8489 §14 ordering rule exactly as the property states it, over wire type codes.
pub fn ref_admitted(types: &[u16]) -> Vec<bool> {
    let (mut mi, mut sha, mut fp) = (false, false, false);
    let mut out = Vec::with_capacity(types.len());
    for &t in types {
        let adm = match t {
            T_MI => !(mi || sha || fp),
            T_MI_SHA256 => !(sha || fp),
            T_FINGERPRINT => !fp,
            _ => !(mi || sha || fp),
        };
        out.push(adm);
        match t {
            T_MI => mi = true,
            T_MI_SHA256 => sha = true,
            T_FINGERPRINT => fp = true,
            _ => {}
        }
    }
    out
}

fn dec_addr(v: &[u8], xor: Option<&[u8; 12]>) -> Result<RAddr, RefErr> {
    if v.len() < 4 {
        return Err(RefErr::BadValue("address too short"));
    }
    let key = xor.map(xor_key);
    let mut port = u16::from_be_bytes([v[2], v[3]]);
    if key.is_some() {
        port ^= (MAGIC >> 16) as u16;
    }
    match v[1] {
        1 => {
            if v.len() < 8 {
                return Err(RefErr::BadValue("ipv4 too short"));
            }
            let mut ip = [0u8; 4];
            for i in 0..4 {
                ip[i] = v[4 + i] ^ key.map(|k| k[i]).unwrap_or(0);
            }
            Ok(RAddr::V4(ip, port))
        }
        2 => {
            if v.len() < 20 {
                return Err(RefErr::BadValue("ipv6 too short"));
            }
            let mut ip = [0u8; 16];
            for i in 0..16 {
                ip[i] = v[4 + i] ^ key.map(|k| k[i]).unwrap_or(0);
            }
            Ok(RAddr::V6(ip, port))
        }
        _ => Err(RefErr::BadValue("address family")),
    }
}

fn dec_error(v: &[u8]) -> Result<(u16, String), RefErr> {
    if v.len() < 4 {
        return Err(RefErr::BadValue("error code too short"));
    }
    let class = (v[2] & 0x7) as u16;
    let number = v[3] as u16;
    if !(3..=6).contains(&class) || number > 99 {
        return Err(RefErr::BadValue("error class/number"));
    }
    let reason = std::str::from_utf8(&v[4..]).map_err(|_| RefErr::BadValue("reason utf8"))?;
    Ok((class * 100 + number, reason.to_string()))
}

fn dec_alg(v: &[u8]) -> Result<(RAlg, usize), RefErr> {
    if v.len() < 4 {
        return Err(RefErr::BadValue("algorithm too short"));
    }
    let id = u16::from_be_bytes([v[0], v[1]]);
    let pl = u16::from_be_bytes([v[2], v[3]]) as usize;
    if v.len() < 4 + pl {
        return Err(RefErr::BadValue("algorithm params overrun"));
    }
    Ok((
        RAlg {
            id,
            params: v[4..4 + pl].to_vec(),
        },
        4 + pl,
    ))
}

/// Typed parse of one wire attribute (decode-side forms for MI / SHA256 / FP / USERHASH).
pub fn parse_attr(a: &RWireAttr, tid: &[u8; 12]) -> Result<RAttr, RefErr> {
    let v = &a.value[..];
    let s = |v: &[u8]| -> Result<String, RefErr> {
        std::str::from_utf8(v)
            .map(|x| x.to_string())
            .map_err(|_| RefErr::BadValue("utf8"))
    };
    let fixed = |n: usize| -> Result<(), RefErr> {
        if v.len() < n {
            Err(RefErr::BadValue("value too short"))
        } else {
            Ok(())
        }
    };
    Ok(match a.typ {
        T_MAPPED_ADDRESS => RAttr::MappedAddress(dec_addr(v, None)?),
        T_ALTERNATE_SERVER => RAttr::AlternateServer(dec_addr(v, None)?),
        T_OTHER_ADDRESS => RAttr::OtherAddress(dec_addr(v, None)?),
        T_RESPONSE_ORIGIN => RAttr::ResponseOrigin(dec_addr(v, None)?),
        T_XOR_MAPPED_ADDRESS => RAttr::XorMappedAddress(dec_addr(v, Some(tid))?),
        T_XOR_PEER_ADDRESS => RAttr::XorPeerAddress(dec_addr(v, Some(tid))?),
        T_XOR_RELAYED_ADDRESS => RAttr::XorRelayedAddress(dec_addr(v, Some(tid))?),
        T_USERNAME => RAttr::UserName(s(v)?),
        T_REALM => RAttr::Realm(s(v)?),
        T_NONCE => RAttr::Nonce(s(v)?),
        T_SOFTWARE => RAttr::Software(s(v)?),
        T_PADDING => RAttr::Padding(s(v)?),
        T_ERROR_CODE => {
            let (code, reason) = dec_error(v)?;
            RAttr::ErrorCode { code, reason }
        }
        T_UNKNOWN_ATTRIBUTES => {
            if v.len() % 2 != 0 {
                return Err(RefErr::BadValue("odd unknown-attributes"));
            }
            RAttr::UnknownAttributes(v.chunks(2).map(|c| u16::from_be_bytes([c[0], c[1]])).collect())
        }
        T_USERHASH => {
            if v.len() != 32 {
                return Err(RefErr::BadValue("userhash length"));
            }
            RAttr::UserHash(UserHashSpec::Bytes(v.to_vec()))
        }
        T_PASSWORD_ALGORITHM => RAttr::PasswordAlgorithm(dec_alg(v)?.0),
        T_PASSWORD_ALGORITHMS => {
            let mut list = Vec::new();
            let mut pos = 0;
            while pos < v.len() {
                let (alg, n) = dec_alg(&v[pos..])?;
                list.push(alg);
                pos += n;
                if pos < v.len() {
                    pos += pad4(n);
                    if pos > v.len() {
                        return Err(RefErr::BadValue("algorithms padding overrun"));
                    }
                    if pos == v.len() {
                        // trailing inner padding after the last entry: tolerated here, the library rejects it
                        return Err(RefErr::BadValue("algorithms trailing padding"));
                    }
                }
            }
            RAttr::PasswordAlgorithms(list)
        }
        T_ICE_CONTROLLED => {
            fixed(8)?;
            RAttr::IceControlled(u64::from_be_bytes(v[..8].try_into().unwrap()))
        }
        T_ICE_CONTROLLING => {
            fixed(8)?;
            RAttr::IceControlling(u64::from_be_bytes(v[..8].try_into().unwrap()))
        }
        T_PRIORITY => {
            fixed(4)?;
            RAttr::Priority(u32::from_be_bytes(v[..4].try_into().unwrap()))
        }
        T_LIFETIME => {
            fixed(4)?;
            RAttr::LifeTime(u32::from_be_bytes(v[..4].try_into().unwrap()))
        }
        T_USE_CANDIDATE => RAttr::UseCandidate,
        T_DONT_FRAGMENT => RAttr::DontFragment,
        T_CHANNEL_NUMBER => {
            fixed(4)?;
            RAttr::ChannelNumber(u16::from_be_bytes([v[0], v[1]]))
        }
        T_DATA => RAttr::Data(v.to_vec()),
        T_MOBILITY_TICKET => RAttr::MobilityTicket(v.to_vec()),
        T_REQUESTED_ADDRESS_FAMILY => {
            fixed(4)?;
            if v[0] != 1 && v[0] != 2 {
                return Err(RefErr::BadValue("family"));
            }
            RAttr::RequestedAddressFamily(v[0])
        }
        T_ADDITIONAL_ADDRESS_FAMILY => {
            fixed(4)?;
            if v[0] != 1 && v[0] != 2 {
                return Err(RefErr::BadValue("family"));
            }
            RAttr::AdditionalAddressFamily(v[0])
        }
        T_EVEN_PORT => {
            fixed(1)?;
            RAttr::EvenPort(v[0] & 0x80 != 0)
        }
        T_REQUESTED_TRANSPORT => {
            fixed(4)?;
            RAttr::RequestedTransport(v[0])
        }
        T_RESERVATION_TOKEN => {
            fixed(8)?;
            RAttr::ReservationToken(v[..8].try_into().unwrap())
        }
        T_ADDRESS_ERROR_CODE => {
            fixed(4)?;
            if v[0] != 1 && v[0] != 2 {
                return Err(RefErr::BadValue("family"));
            }
            let (code, reason) = dec_error(v)?;
            RAttr::AddressErrorCode {
                family: v[0],
                code,
                reason,
            }
        }
        T_ICMP => {
            fixed(8)?;
            let tc = u16::from_be_bytes([v[2], v[3]]);
            RAttr::Icmp {
                typ: (tc >> 9) as u8,
                code: tc & 0x1FF,
                data: v[4..8].try_into().unwrap(),
            }
        }
        T_CHANGE_REQUEST => {
            fixed(4)?;
            let x = u32::from_be_bytes(v[..4].try_into().unwrap());
            RAttr::ChangeRequest {
                ip: x & 0x4 != 0,
                port: x & 0x2 != 0,
            }
        }
        T_RESPONSE_PORT => {
            fixed(2)?;
            RAttr::ResponsePort(u16::from_be_bytes([v[0], v[1]]))
        }
        T_MI => {
            if v.len() != 20 {
                return Err(RefErr::BadValue("mi length"));
            }
            RAttr::Mi(MacSpec::Wire(v.to_vec()))
        }
        T_MI_SHA256 => {
            if v.len() != 32 {
                return Err(RefErr::BadValue("mi-sha256 length"));
            }
            RAttr::MiSha256(MacSpec::Wire(v.to_vec()))
        }
        T_FINGERPRINT => {
            if v.len() != 4 {
                return Err(RefErr::BadValue("fingerprint length"));
            }
            RAttr::Fp(FpSpec::Wire(v.to_vec()))
        }
        t => RAttr::Raw {
            typ: t,
            value: v.to_vec(),
        },
    })
}

/// MAC input per RFC 8489 §14.5/14.6 for the attribute starting at `hdr_off` with value length `maclen`.
pub fn mac_input(bytes: &[u8], hdr_off: usize, maclen: usize) -> Vec<u8> {
    let mut p = bytes[..hdr_off].to_vec();
    let l = (hdr_off - 20 + 4 + maclen) as u16;
    p[2..4].copy_from_slice(&l.to_be_bytes());
    p
}

/// Does the first attribute of type `typ` in `w` verify under `key` with own crypto?
pub fn verify_first(bytes: &[u8], w: &RWire, typ: u16, key: &[u8]) -> Option<bool> {
    let a = w.attrs.iter().find(|a| a.typ == typ)?;
    Some(verify_at(bytes, a, key))
}

pub fn verify_at(bytes: &[u8], a: &RWireAttr, key: &[u8]) -> bool {
    match a.typ {
        T_MI => a.value.len() == 20 && refcrypto::hmac_sha1(key, &mac_input(bytes, a.hdr_off, 20))[..] == a.value[..],
        T_MI_SHA256 => {
            a.value.len() == 32 && refcrypto::hmac_sha256(key, &mac_input(bytes, a.hdr_off, 32))[..] == a.value[..]
        }
        T_FINGERPRINT => {
            a.value.len() == 4
                && (refcrypto::crc32(&mac_input(bytes, a.hdr_off, 4)) ^ FP_XOR).to_be_bytes()[..] == a.value[..]
        }
        _ => false,
    }
}

/// The five RFC 5769 test vectors, copied from the RFC text.
pub mod vectors {
    pub const PASSWORD_SHORT: &str = "VOkJxbRl1RmTxUk/WvJxBt";
    pub const SAMPLE_REQUEST: [u8; 108] = [
        0x00, 0x01, 0x00, 0x58, 0x21, 0x12, 0xa4, 0x42, 0xb7, 0xe7, 0xa7, 0x01, 0xbc, 0x34, 0xd6, 0x86, 0xfa, 0x87,
        0xdf, 0xae, 0x80, 0x22, 0x00, 0x10, 0x53, 0x54, 0x55, 0x4e, 0x20, 0x74, 0x65, 0x73, 0x74, 0x20, 0x63, 0x6c,
        0x69, 0x65, 0x6e, 0x74, 0x00, 0x24, 0x00, 0x04, 0x6e, 0x00, 0x01, 0xff, 0x80, 0x29, 0x00, 0x08, 0x93, 0x2f,
        0xf9, 0xb1, 0x51, 0x26, 0x3b, 0x36, 0x00, 0x06, 0x00, 0x09, 0x65, 0x76, 0x74, 0x6a, 0x3a, 0x68, 0x36, 0x76,
        0x59, 0x20, 0x20, 0x20, 0x00, 0x08, 0x00, 0x14, 0x9a, 0xea, 0xa7, 0x0c, 0xbf, 0xd8, 0xcb, 0x56, 0x78, 0x1e,
        0xf2, 0xb5, 0xb2, 0xd3, 0xf2, 0x49, 0xc1, 0xb5, 0x71, 0xa2, 0x80, 0x28, 0x00, 0x04, 0xe5, 0x7a, 0x3b, 0xcf,
    ];
    pub const SAMPLE_IPV4_RESPONSE: [u8; 80] = [
        0x01, 0x01, 0x00, 0x3c, 0x21, 0x12, 0xa4, 0x42, 0xb7, 0xe7, 0xa7, 0x01, 0xbc, 0x34, 0xd6, 0x86, 0xfa, 0x87,
        0xdf, 0xae, 0x80, 0x22, 0x00, 0x0b, 0x74, 0x65, 0x73, 0x74, 0x20, 0x76, 0x65, 0x63, 0x74, 0x6f, 0x72, 0x20,
        0x00, 0x20, 0x00, 0x08, 0x00, 0x01, 0xa1, 0x47, 0xe1, 0x12, 0xa6, 0x43, 0x00, 0x08, 0x00, 0x14, 0x2b, 0x91,
        0xf5, 0x99, 0xfd, 0x9e, 0x90, 0xc3, 0x8c, 0x74, 0x89, 0xf9, 0x2a, 0xf9, 0xba, 0x53, 0xf0, 0x6b, 0xe7, 0xd7,
        0x80, 0x28, 0x00, 0x04, 0xc0, 0x7d, 0x4c, 0x96,
    ];
    pub const SAMPLE_IPV6_RESPONSE: [u8; 92] = [
        0x01, 0x01, 0x00, 0x48, 0x21, 0x12, 0xa4, 0x42, 0xb7, 0xe7, 0xa7, 0x01, 0xbc, 0x34, 0xd6, 0x86, 0xfa, 0x87,
        0xdf, 0xae, 0x80, 0x22, 0x00, 0x0b, 0x74, 0x65, 0x73, 0x74, 0x20, 0x76, 0x65, 0x63, 0x74, 0x6f, 0x72, 0x20,
        0x00, 0x20, 0x00, 0x14, 0x00, 0x02, 0xa1, 0x47, 0x01, 0x13, 0xa9, 0xfa, 0xa5, 0xd3, 0xf1, 0x79, 0xbc, 0x25,
        0xf4, 0xb5, 0xbe, 0xd2, 0xb9, 0xd9, 0x00, 0x08, 0x00, 0x14, 0xa3, 0x82, 0x95, 0x4e, 0x4b, 0xe6, 0x7b, 0xf1,
        0x17, 0x84, 0xc9, 0x7c, 0x82, 0x92, 0xc2, 0x75, 0xbf, 0xe3, 0xed, 0x41, 0x80, 0x28, 0x00, 0x04, 0xc8, 0xfb,
        0x0b, 0x4c,
    ];
    /// RFC 5769 §2.4: long-term, user "マトリックス", password "TheMatrIX", realm "example.org"
    pub const SAMPLE_LONG_TERM: [u8; 116] = [
        0x00, 0x01, 0x00, 0x60, 0x21, 0x12, 0xa4, 0x42, 0x78, 0xad, 0x34, 0x33, 0xc6, 0xad, 0x72, 0xc0, 0x29, 0xda,
        0x41, 0x2e, 0x00, 0x06, 0x00, 0x12, 0xe3, 0x83, 0x9e, 0xe3, 0x83, 0x88, 0xe3, 0x83, 0xaa, 0xe3, 0x83, 0x83,
        0xe3, 0x82, 0xaf, 0xe3, 0x82, 0xb9, 0x00, 0x00, 0x00, 0x15, 0x00, 0x1c, 0x66, 0x2f, 0x2f, 0x34, 0x39, 0x39,
        0x6b, 0x39, 0x35, 0x34, 0x64, 0x36, 0x4f, 0x4c, 0x33, 0x34, 0x6f, 0x4c, 0x39, 0x46, 0x53, 0x54, 0x76, 0x79,
        0x36, 0x34, 0x73, 0x41, 0x00, 0x14, 0x00, 0x0b, 0x65, 0x78, 0x61, 0x6d, 0x70, 0x6c, 0x65, 0x2e, 0x6f, 0x72,
        0x67, 0x00, 0x00, 0x08, 0x00, 0x14, 0xf6, 0x70, 0x24, 0x65, 0x6d, 0xd6, 0x4a, 0x3e, 0x02, 0xb8, 0xe0, 0x71,
        0x2e, 0x85, 0xc9, 0xa2, 0x8c, 0xa8, 0x96, 0x66,
    ];
    /// RFC 8489 Appendix B.1: long-term with USERHASH and MESSAGE-INTEGRITY-SHA256
    pub const SAMPLE_LONG_TERM_SHA256: [u8; 156] = [
        0x00, 0x01, 0x00, 0x88, 0x21, 0x12, 0xa4, 0x42, 0x78, 0xad, 0x34, 0x33, 0xc6, 0xad, 0x72, 0xc0, 0x29, 0xda,
        0x41, 0x2e, 0x00, 0x1e, 0x00, 0x20, 0x4a, 0x3c, 0xf3, 0x8f, 0xef, 0x69, 0x92, 0xbd, 0xa9, 0x52, 0xc6, 0x78,
        0x04, 0x17, 0xda, 0x0f, 0x24, 0x81, 0x94, 0x15, 0x56, 0x9e, 0x60, 0xb2, 0x05, 0xc4, 0x6e, 0x41, 0x40, 0x7f,
        0x17, 0x04, 0x00, 0x15, 0x00, 0x29, 0x6f, 0x62, 0x4d, 0x61, 0x74, 0x4a, 0x6f, 0x73, 0x32, 0x41, 0x41, 0x41,
        0x43, 0x66, 0x2f, 0x2f, 0x34, 0x39, 0x39, 0x6b, 0x39, 0x35, 0x34, 0x64, 0x36, 0x4f, 0x4c, 0x33, 0x34, 0x6f,
        0x4c, 0x39, 0x46, 0x53, 0x54, 0x76, 0x79, 0x36, 0x34, 0x73, 0x41, 0x00, 0x00, 0x00, 0x00, 0x14, 0x00, 0x0b,
        0x65, 0x78, 0x61, 0x6d, 0x70, 0x6c, 0x65, 0x2e, 0x6f, 0x72, 0x67, 0x00, 0x00, 0x1c, 0x00, 0x20, 0xfd, 0x8c,
        0x27, 0x38, 0x60, 0xd2, 0xe1, 0x8e, 0xbc, 0xa4, 0xc8, 0x9b, 0x69, 0x73, 0xbe, 0xfa, 0x7e, 0xe8, 0xec, 0xc6,
        0x9e, 0x96, 0x42, 0xdb, 0x32, 0x6f, 0xab, 0x65, 0xa0, 0xb9, 0x55, 0xba,
    ];
}
