//! C09 — decoding admits attributes after integrity/FINGERPRINT only per the RFC 8489 ordering rule.

use crate::codec::*;
use crate::conv;
use crate::refcodec::*;
use crate::report::*;
use serde::{Deserialize, Serialize};
use serde_json::{json, Value};

pub const RULE: &str = "all sequences of length 0..=8 over {ordinary, MESSAGE-INTEGRITY, MESSAGE-INTEGRITY-SHA256, FINGERPRINT} (87381 with the \
empty one) rendered by the reference encoder with MAC/CRC masks {all correct, each single verifiable attribute incorrect, one pseudo-random mask}, \
each decoded under the 16 decoder option combinations plus the context-less decoder, as a message of every class (sequences up to 5 attributes) or of one class chosen by position (longer ones); one evaluation = one (sequence, mask); \
non-trivial = the sequence contains at least one attribute that the ordering rule does not admit; distinct = (sequence, mask)";

/// kinds: 0 ordinary, 1 MI, 2 SHA256, 3 FP.  `bad` bit i set = verifiable attribute at position i carries a wrong value.
#[derive(Clone, Debug, Hash, PartialEq, Eq, Serialize, Deserialize)]
pub struct SeqCase {
    pub kinds: Vec<u8>,
    pub bad: u16,
    /// message class 0-3 (the ordering rule does not depend on it)
    #[serde(default = "default_class")]
    pub class: u8,
}

fn default_class() -> u8 {
    2
}

const PW: &str = "c09-password";

pub fn render(c: &SeqCase) -> (RMsg, Encoded) {
    let key = KeySpec::ShortTerm(PW.into());
    let attrs: Vec<RAttr> = c
        .kinds
        .iter()
        .enumerate()
        .map(|(i, k)| {
            let bad = c.bad >> i & 1 == 1;
            let fault = if bad { Fault::FlipBit((i as u16) * 13 + 5) } else { Fault::Correct };
            match k {
                1 => RAttr::Mi(MacSpec::Keyed { key: key.clone(), fault }),
                2 => RAttr::MiSha256(MacSpec::Keyed { key: key.clone(), fault }),
                3 => RAttr::Fp(FpSpec::Computed(fault)),
                _ => match i % 3 {
                    0 => RAttr::Priority(1000 + i as u32),
                    1 => RAttr::Software(format!("sw{}", i)),
                    _ => RAttr::Raw {
                        typ: 0x7F00 + i as u16,
                        value: vec![i as u8; i + 1],
                    },
                },
            }
        })
        .collect();
    let msg = RMsg {
        method: 1,
        class: c.class & 3,
        tid: [0x33; 12],
        attrs,
    };
    let enc = ref_encode(&msg, &mut Noise::zero());
    (msg, enc)
}

fn type_of(k: u8, i: usize) -> u16 {
    match k {
        1 => T_MI,
        2 => T_MI_SHA256,
        3 => T_FINGERPRINT,
        _ => match i % 3 {
            0 => T_PRIORITY,
            1 => T_SOFTWARE,
            _ => 0x7F00 + i as u16,
        },
    }
}

fn match_attr(lib: &stun_rs::StunAttribute, model: &RAttr, enc: &Encoded, i: usize, unk: bool) -> Result<(), String> {
    let t = &enc.tlv[i];
    let wire = &enc.bytes[t.val_off..t.val_off + t.val_len];
    let mut exp = conv::expected_decoded(model, wire);
    if let RAttr::Raw { typ, .. } = &exp {
        if !unk {
            exp = RAttr::Raw {
                typ: *typ,
                value: vec![],
            };
        }
        if let stun_rs::StunAttribute::Unknown(u) = lib {
            if u.attribute_data().is_some() != unk {
                return Err(format!("unknown attribute data present={} but option={}", u.attribute_data().is_some(), unk));
            }
        }
    }
    conv::attr_matches(lib, &exp)
}

pub fn check_seq(c: &SeqCase, st: &mut Stats) -> Result<(), String> {
    let (msg, enc) = render(c);
    let types: Vec<u16> = c.kinds.iter().enumerate().map(|(i, k)| type_of(*k, i)).collect();
    let admitted = ref_admitted(&types);
    let n_adm = admitted.iter().filter(|b| **b).count();
    st.class(&format!("len:{}", c.kinds.len()));
    if n_adm < c.kinds.len() {
        st.nontrivial(c);
        st.class("has-non-admitted");
    }
    st.class(&format!("admitted/present:{}/{}", n_adm, c.kinds.len()));
    let lkey = conv::lib_key(&KeySpec::ShortTerm(PW.into())).map_err(|e| format!("HARNESS-{}", e))?;
    // expected validation failure for the default rule
    let bad_at = |i: usize| c.bad >> i & 1 == 1;
    let mut combos: Vec<DecOpts> = vec![DecOpts::plain()];
    for bits in 0u8..16 {
        combos.push(DecOpts {
            key: if bits & 1 != 0 { Some(lkey.clone()) } else { None },
            validation: bits & 2 != 0,
            unknown_data: bits & 4 != 0,
            not_ignore: bits & 8 != 0,
            with_ctx: true,
        });
    }
    let mut full_list_positions: Option<Vec<usize>> = None;
    for o in &combos {
        let r = lib_decode(&enc.bytes, o);
        let validating = o.with_ctx && o.validation;
        if !o.not_ignore {
            let must_fail = validating
                && (0..c.kinds.len()).any(|i| {
                    admitted[i]
                        && match c.kinds[i] {
                            3 => bad_at(i),
                            1 | 2 => bad_at(i) || o.key.is_none(),
                            _ => false,
                        }
                });
            match (&r, must_fail) {
                (Ok(_), true) => {
                    return Err(format!(
                        "[{}] decode succeeded although an admitted verifiable attribute is incorrect or has no key",
                        o.name()
                    ))
                }
                (Err(e), false) => {
                    return Err(format!(
                        "[{}] decode failed ({}) although every admitted attribute is correct (only non-admitted ones, if any, are wrong)",
                        o.name(),
                        e
                    ))
                }
                _ => {}
            }
            if let Ok((m, n)) = &r {
                if *n != enc.bytes.len() {
                    return Err(format!("[{}] consumed {} of {}", o.name(), n, enc.bytes.len()));
                }
                let exp_idx: Vec<usize> = (0..c.kinds.len()).filter(|i| admitted[*i]).collect();
                if m.attributes().len() != exp_idx.len() {
                    return Err(format!(
                        "[{}] decoded {} attributes, the ordering rule admits {} of {} (kinds {:?})",
                        o.name(),
                        m.attributes().len(),
                        exp_idx.len(),
                        c.kinds.len(),
                        c.kinds
                    ));
                }
                for (j, i) in exp_idx.iter().enumerate() {
                    match_attr(&m.attributes()[j], &msg.attrs[*i], &enc, *i, o.with_ctx && o.unknown_data)
                        .map_err(|e| format!("[{}] admitted attribute {} (wire position {}): {}", o.name(), j, i, e))?;
                }
            }
        } else if let Ok((m, _)) = &r {
            // ordering rule disabled: every wire attribute in order
            if m.attributes().len() != c.kinds.len() {
                return Err(format!(
                    "[{}] not_ignore decoded {} attributes of {}",
                    o.name(),
                    m.attributes().len(),
                    c.kinds.len()
                ));
            }
            for i in 0..c.kinds.len() {
                match_attr(&m.attributes()[i], &msg.attrs[i], &enc, i, o.unknown_data)
                    .map_err(|e| format!("[{}] attribute {}: {}", o.name(), i, e))?;
            }
            if full_list_positions.is_none() {
                full_list_positions = Some(stun_agent::verif_protected_positions(m.attributes()));
            }
        } else if !validating {
            return Err(format!("[{}] decode failed without validation: {}", o.name(), r.err().unwrap()));
        }
    }
    // the agent's own protected-attribute iterator implements the same rule (hook)
    if let Some(pos) = full_list_positions {
        let exp: Vec<usize> = (0..c.kinds.len()).filter(|i| admitted[*i]).collect();
        if pos != exp {
            return Err(format!(
                "agent protected iterator admits positions {:?}, ordering rule admits {:?} (kinds {:?})",
                pos, exp, c.kinds
            ));
        }
    }
    if st.wants_sample() && c.kinds.len() >= 4 && n_adm < c.kinds.len() {
        st.sample(json!({"kinds(0=ordinary,1=MI,2=SHA256,3=FP)": c.kinds, "bad_mask": c.bad, "admitted": admitted}));
    }
    Ok(())
}

fn sequences(max_len: usize) -> Vec<Vec<u8>> {
    let mut all: Vec<Vec<u8>> = vec![vec![]];
    let mut layer: Vec<Vec<u8>> = vec![vec![]];
    for _ in 0..max_len {
        let mut next = Vec::with_capacity(layer.len() * 4);
        for s in &layer {
            for k in 0u8..4 {
                let mut t = s.clone();
                t.push(k);
                next.push(t);
            }
        }
        all.extend(next.iter().cloned());
        layer = next;
    }
    all
}

pub fn cases(seed: u64) -> Vec<SeqCase> {
    let mut out = Vec::new();
    for kinds in sequences(8) {
        let ver: Vec<usize> = (0..kinds.len()).filter(|i| kinds[*i] != 0).collect();
        // every class for sequences of up to 5 attributes, one class (by position in the enumeration) for longer ones
        let classes: Vec<u8> = if kinds.len() <= 5 { vec![0, 1, 2, 3] } else { vec![(out.len() % 4) as u8] };
        let class = *classes.last().unwrap();
        for cl in &classes {
            out.push(SeqCase { kinds: kinds.clone(), bad: 0, class: *cl });
        }
        for i in &ver {
            for cl in &classes {
                out.push(SeqCase {
                    kinds: kinds.clone(),
                    bad: 1 << i,
                    class: *cl,
                });
            }
        }
        if ver.len() >= 2 {
            // one pseudo-random mask over the verifiable positions, a pure function of (seed, sequence)
            let h = hash_of(&(seed, &kinds));
            let mut bad = 0u16;
            for (j, i) in ver.iter().enumerate() {
                if h >> j & 1 == 1 {
                    bad |= 1 << i;
                }
            }
            if bad.count_ones() >= 2 {
                out.push(SeqCase { kinds: kinds.clone(), bad, class });
            }
        }
    }
    out
}

pub fn run(ctx: &Ctx) -> RunResult {
    let mut rr = RunResult::new(RULE);
    rr.level = "exploration".into();
    rr.assumptions = vec![
        "ordinary attributes are PRIORITY / SOFTWARE / an unknown type by position; MACs use one short-term key".into(),
        "with the ordering rule disabled only the structural relation (all wire attributes in order) is asserted".into(),
        "the agent's iterator is observed through the verif-hooks accessor verif_protected_positions".into(),
    ];
    let all = cases(ctx.seed);
    let r = run_enum(ctx, "seq", &all, |c, st| check_seq(c, st));
    let complete = r.1.is_none();
    rr.absorb(r);
    rr.stats.exhaustive = Some(complete);
    rr.stats.notes.push(format!(
        "all 87381 sequences of length 0..=8 enumerated with all-correct and every single-incorrect mask: {}",
        complete
    ));
    rr
}

pub fn replay(_ctx: &Ctx, check: &str, case: &Value) -> Result<(), String> {
    let mut st = Stats::default();
    match check {
        "seq" => {
            let c: SeqCase = serde_json::from_value(case.clone()).map_err(|e| format!("HARNESS-bad case: {}", e))?;
            guard_str(|| check_seq(&c, &mut st))?
        }
        _ => Err(format!("HARNESS-unknown check {}", check)),
    }
}
