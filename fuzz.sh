#!/bin/bash
# Thorough-tier libFuzzer campaigns for one property (called by verif.sh <ID> thorough after the proptest part).
# exit 0: no oracle failure; 1: VIOLATION (artifact confirmed by the strict replay); 2: inconclusive.
set -u
ID="$1"
VERIF_DIR="$(cd "$(dirname "$0")" && pwd)"
cd "$VERIF_DIR/harness" || exit 2
export CARGO_NET_OFFLINE=true
case "$ID" in
  C01|C02) TARGETS="fz_roundtrip" ;;
  C03) TARGETS="fz_decode fz_client fz_stream fz_history" ;;
  C05|C10|C17) TARGETS="fz_history fz_client" ;;
  C06|C07|C08|C11|C12|C13) TARGETS="fz_history" ;;
  C16) TARGETS="fz_stream" ;;
  C18) TARGETS="fz_decode" ;;
  *) exit 0 ;;
esac
SECS="${VERIF_FUZZ_SECS:-480}"
SEED="${VERIF_SEED:-1}"; [ "$SEED" = "0" ] && SEED=1
BIN="$VERIF_DIR/harness/target/verif/rustun-verif"
# the replay binary must be built from the same /repo tree as the fuzz targets
cargo build --profile verif --offline >/dev/null 2>&1 || { echo "INCONCLUSIVE: harness build failed"; exit 2; }
rc=0
for T in $TARGETS; do
  # fz_history decides semantic invariants of a safe-Rust state machine: built without AddressSanitizer (5x the
  # executions per second), in a target directory of its own so that the two flag sets do not evict each other
  SAN=""; [ "$T" = "fz_history" ] && SAN="-s none --target-dir fuzz/target-nosan"
  if ! cargo +nightly fuzz build $SAN "$T" >/tmp/rustun-fuzz-build.$$ 2>&1; then
    tail -20 /tmp/rustun-fuzz-build.$$; rm -f /tmp/rustun-fuzz-build.$$
    echo "INCONCLUSIVE: fuzz target $T did not build"; exit 2
  fi
  rm -f /tmp/rustun-fuzz-build.$$
  CORPUS="fuzz/corpus/$T-$ID-$$"; ART="fuzz/artifacts/$T-$ID-$$/"
  rm -rf "$CORPUS" "$ART"; mkdir -p "$CORPUS" "$ART"
  "$BIN" corpus "$T" "$CORPUS" >/dev/null || { echo "INCONCLUSIVE: corpus generation failed"; exit 2; }
  LOG="fuzz/artifacts/$T-$ID-$$.log"
  VERIF_FOCUS="$ID" VERIF_DIR="$VERIF_DIR" cargo +nightly fuzz run $SAN "$T" "$CORPUS" -- -seed="$SEED" -max_total_time="$SECS" -fork=16 -len_control=0 -max_len=4096 \
      -artifact_prefix="$ART" -ignore_crashes=0 -print_final_stats=1 >"$LOG" 2>&1
  frc=$?
  EXECS=$(grep -Eo "#[0-9]+:" "$LOG" | tail -1 | tr -d '#:')
  echo "fuzz target $T for $ID: ${SECS}s budget, last job counter ${EXECS:-?}, exit $frc"
  CRASH=$(ls "$ART"crash-* 2>/dev/null | head -1)
  if [ -n "$CRASH" ]; then
    REASON=$(grep -m1 "VIOLATION" "$LOG" | cut -c1-300)
    mkdir -p "$VERIF_DIR/replays"
    KEEP="$VERIF_DIR/replays/$ID-$T-$(basename "$CRASH").bin"
    cp "$CRASH" "$KEEP"
    # confirm through the strict (non-fuzz) replay path where one exists for raw bytes
    case "$T" in
      fz_decode)
        HEX=$(xxd -p "$CRASH" | tr -d '\n')
        CHK="decode-bytes"; [ "$ID" = "C18" ] && CHK="options-bytes"
        J="$VERIF_DIR/replays/$ID-$T-$(basename "$CRASH").json"
        printf '{"property":"%s","check":"%s","reason":"libFuzzer artifact","case":"%s"}\n' "$ID" "$CHK" "$HEX" > "$J"
        "$BIN" "$ID" --replay "$J" >/dev/null 2>&1; rrc=$?
        if [ $rrc -eq 1 ]; then
          echo "reason: $REASON"; echo "VIOLATION property=$ID replay=$J"; rc=1
        else
          echo "INCONCLUSIVE: libFuzzer artifact $KEEP does not reproduce as a violation in the strict replay (replay exit $rrc)"; rc=2
        fi ;;
      fz_history)
        J="$VERIF_DIR/replays/$ID-$T-$(basename "$CRASH").json"
        if ! "$BIN" hist-json "$ID" "$CRASH" "$J" >/dev/null 2>&1; then
          echo "INCONCLUSIVE: libFuzzer artifact $KEEP could not be converted into a history"; rc=2
        else
          "$BIN" "$ID" --replay "$J" >/dev/null 2>&1; rrc=$?
          if [ $rrc -eq 1 ]; then
            echo "reason: $REASON"; echo "VIOLATION property=$ID replay=$J"; rc=1
          else
            echo "INCONCLUSIVE: libFuzzer artifact $KEEP ($REASON) does not reproduce as a violation in the replay of $J (replay exit $rrc)"; rc=2
          fi
        fi ;;
      *)
        if echo "$REASON" | grep -q "VIOLATION.*$ID\|VIOLATION C03"; then
          echo "reason: $REASON"; echo "VIOLATION property=$ID replay=$KEEP"; rc=1
        else
          echo "INCONCLUSIVE: libFuzzer stopped on $KEEP ($REASON) which is not a $ID oracle failure"; [ $rc -eq 0 ] && rc=2
        fi ;;
    esac
  elif [ $frc -ne 0 ]; then
    echo "INCONCLUSIVE: libFuzzer exited $frc without a crash artifact (see $LOG)"; [ $rc -eq 0 ] && rc=2
  fi
  # record the campaign in the evidence file written by the proptest part
  python3 - "$VERIF_DIR/evidence/$ID.json" "$T" "$SECS" "${EXECS:-0}" <<'PY'
import json,sys
p,t,secs,execs=sys.argv[1:5]
try:
    e=json.load(open(p))
    e['coverage'].setdefault('fuzz_campaigns',[]).append({'target':t,'budget_s':int(secs),'job_counter':int(execs or 0)})
    json.dump(e,open(p,'w'),indent=1)
except Exception as ex:
    print('could not annotate evidence:',ex)
PY
  rm -rf "$CORPUS"
  [ $rc -eq 1 ] && break
done
exit $rc
