//! Seed corpora for the libFuzzer targets: valid reference-encoded messages, RFC vectors, prepared client inputs.

use crate::props::c18::arb_wild_msg;
use crate::refcodec::*;
use proptest::strategy::{Strategy, ValueTree};
use proptest::test_runner::{Config, RngSeed, TestRunner};
use std::path::Path;

fn sample_msgs(n: usize, seed: u64) -> Vec<Vec<u8>> {
    let mut runner = TestRunner::new(Config {
        rng_seed: RngSeed::Fixed(seed),
        failure_persistence: None,
        ..Config::default()
    });
    let s = arb_wild_msg();
    (0..n)
        .filter_map(|_| s.new_tree(&mut runner).ok().map(|t| ref_encode(&t.current(), &mut Noise::zero()).bytes))
        .collect()
}

pub fn write(target: &str, dir: &Path, seed: u64) -> Result<usize, String> {
    std::fs::create_dir_all(dir).map_err(|e| e.to_string())?;
    let mut files: Vec<Vec<u8>> = Vec::new();
    let vectors: [&[u8]; 5] = [
        &vectors::SAMPLE_REQUEST,
        &vectors::SAMPLE_IPV4_RESPONSE,
        &vectors::SAMPLE_IPV6_RESPONSE,
        &vectors::SAMPLE_LONG_TERM,
        &vectors::SAMPLE_LONG_TERM_SHA256,
    ];
    let msgs = sample_msgs(150, seed);
    match target {
        "fz_decode" => {
            files.extend(vectors.iter().map(|v| v.to_vec()));
            files.extend(msgs);
        }
        "fz_stream" => {
            for (i, m) in msgs.iter().enumerate().take(60) {
                let mut f = vec![(m.len() / 3).min(255) as u8, (i % 5) as u8];
                f.extend((0..i % 5).map(|k| (k * 7 + i) as u8));
                f.extend_from_slice(m);
                if i % 2 == 0 {
                    f.extend_from_slice(&vectors::SAMPLE_IPV4_RESPONSE);
                }
                files.push(f);
            }
        }
        "fz_roundtrip" => {
            let mut x = seed | 1;
            for i in 0..80usize {
                let n = 16 + (i * 13) % 400;
                files.push(
                    (0..n)
                        .map(|_| {
                            x ^= x << 13;
                            x ^= x >> 7;
                            x ^= x << 17;
                            (x >> 16) as u8
                        })
                        .collect(),
                );
            }
            files.push(vec![0; 64]);
            files.push(vec![0xFF; 200]);
        }
        "fz_client" => {
            for (i, m) in msgs.iter().enumerate().take(100) {
                let mut f = vec![(i * 37) as u8, (i * 11) as u8 | 0x40];
                f.extend_from_slice(m);
                files.push(f);
            }
            for (i, v) in vectors.iter().enumerate() {
                let mut f = vec![i as u8, 0xC1];
                f.extend_from_slice(v);
                files.push(f);
            }
        }
        "fz_history" => {
            // configuration bytes for every mechanism / transport / fingerprint combination followed by short
            // operation strings (send, timer, deliver ...) — the decoder gives every byte string a meaning
            let mut x = seed | 1;
            let mut rnd = move || {
                x ^= x << 13;
                x ^= x >> 7;
                x ^= x << 17;
                (x >> 16) as u8
            };
            for b0 in [0u8, 1, 2, 3, 4, 5, 0x40, 0x44, 0x81, 0x84, 0xC2, 0xC5] {
                for k in 0..6usize {
                    let mut f = vec![b0, (k as u8) << 6, k as u8 * 37];
                    // send, advance, deliver(success), timer, deliver 401 + send + deliver success
                    f.extend_from_slice(&[0x00, 0x24, 0x09, 0x00, 0x00, 0x00, 0x00, 0x06]);
                    f.extend_from_slice(&[0x00, 0x09, 0x00, 0x08, 0x31, 0x00, 0x0A, 0x00, 0x00, 0x09, 0x00, 0x00, 0x00, 0x00]);
                    for _ in 0..(k * 25) {
                        f.push(rnd());
                    }
                    files.push(f);
                }
            }
        }
        _ => return Err(format!("unknown target {}", target)),
    }
    for (i, f) in files.iter().enumerate() {
        std::fs::write(dir.join(format!("seed-{:04}", i)), f).map_err(|e| e.to_string())?;
    }
    Ok(files.len())
}
