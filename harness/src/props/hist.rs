//! Shared runner for the properties decided over client histories.

use crate::report::*;
use crate::sim::hgen::{arb_history, HistOpts};
use crate::sim::*;
use serde_json::{json, Value};

pub struct HistProp {
    pub focus: &'static [&'static str],
    pub opts: HistOpts,
    pub drain: bool,
    pub quick: u64,
    pub thorough: u64,
    pub rule: &'static str,
    pub assumptions: &'static [&'static str],
    pub nontrivial: fn(&History, &Sim) -> bool,
}

pub fn classify(h: &History, sim: &Sim, st: &mut Stats) {
    st.class(&format!("ops:{}", match h.ops.len() { 0..=5 => "1-5", 6..=15 => "6-15", 16..=30 => "16-30", _ => ">30" }));
    st.class(&format!("mech:{}", match h.cfg.mech { Mech::None => "none", Mech::ShortTerm(None) => "short-term-learn", Mech::ShortTerm(_) => "short-term-preset", Mech::LongTerm => "long-term" }));
    st.class(if h.cfg.reliable.is_some() { "transport:reliable" } else { "transport:unreliable" });
    st.class(if h.cfg.fingerprint { "fingerprint:on" } else { "fingerprint:off" });
    st.class(&format!("max-concurrency:{}", sim.max_concurrency.min(5)));
    st.class(&format!("requests:{}", sim.reqs.len().min(8)));
    if sim.late_timer_calls > 0 {
        st.class("has-late-timer-call");
    }
    if sim.skipped_slots > 0 {
        st.class("has-skipped-slot");
    }
    if sim.deliveries_to_finished > 0 {
        st.class("has-delivery-to-finished-transaction");
    }
    if sim.refusals > 0 {
        st.class("has-max-outstanding-refusal");
    }
    if sim.rejected_while_outstanding > 0 {
        st.class("has-rejected-buffer-while-outstanding");
    }
    for r in &sim.reqs {
        if let Some((k, _)) = r.fin {
            st.class(&format!("final:{:?}", k));
        } else {
            st.class("final:none(still awaiting at end)");
        }
    }
    if h.cfg.mech == Mech::LongTerm {
        for (b, n) in [(0, "first"), (1, "retry-401"), (2, "retry-438"), (3, "subsequent")] {
            if sim.lt_states_seen >> b & 1 == 1 {
                st.class(&format!("lt-state-visited:{}", n));
            }
        }
    }
    if sim.desync {
        st.class("tracker-desynchronised-by-hostile-input");
    }
}

pub fn sample_history(h: &History, sim: &Sim) -> Value {
    json!({
        "cfg": format!("{:?}", h.cfg),
        "ops": h.ops.iter().map(op_name).collect::<Vec<_>>(),
        "finals": sim.reqs.iter().map(|r| format!("{:?}", r.fin.map(|f| f.0))).collect::<Vec<_>>(),
    })
}

pub fn check(hp: &HistProp, ctx: &Ctx, h: &History, st: &mut Stats) -> Result<(), String> {
    let sim = run_history(h, hp.focus, ctx, st, hp.drain)?;
    if let Some(sim) = sim {
        classify(h, &sim, st);
        if (hp.nontrivial)(h, &sim) {
            st.nontrivial(h);
            if st.wants_sample() && h.ops.len() <= 14 {
                st.sample(sample_history(h, &sim));
            }
        }
    }
    Ok(())
}

pub fn run(ctx: &Ctx, hp: &HistProp) -> RunResult {
    let mut rr = RunResult::new(hp.rule);
    rr.assumptions = hp.assumptions.iter().map(|s| s.to_string()).collect();
    rr.assumptions.push("client state is observed through the read-only verif-hooks snapshot; every check also has a hook-free observation".into());
    rr.assumptions.push("the controller pulls events() after every call, as the API documentation requires".into());
    let opts = hp.opts.clone();
    rr.absorb(run_prop(ctx, "history", ctx.pick(hp.quick, hp.thorough), move || arb_history(opts.clone()), |h, st| check(hp, ctx, h, st)));
    rr
}

pub fn replay(ctx: &Ctx, hp: &HistProp, check_name: &str, case: &Value) -> Result<(), String> {
    let mut st = Stats::default();
    match check_name {
        "history" => {
            let h: History = serde_json::from_value(case.clone()).map_err(|e| format!("HARNESS-bad case: {}", e))?;
            guard_str(|| check(hp, ctx, &h, &mut st))?
        }
        _ => Err(format!("HARNESS-unknown check {}", check_name)),
    }
}
