#![no_main]
//! C01 + C02 + C14: bytes -> structured message (arbitrary::Unstructured) -> round trip, reference bytes, buffer sweep.
use arbitrary::Unstructured;
use libfuzzer_sys::fuzz_target;
use rustun_verif::fuzzgen;
use rustun_verif::props::{c01, c02};
use rustun_verif::report::Stats;

fuzz_target!(|data: &[u8]| {
    let mut u = Unstructured::new(data);
    let Ok(msg) = fuzzgen::msg_from(&mut u) else { return };
    let mut st = Stats::default();
    if let Err(e) = c01::check_roundtrip(&msg, &mut st) {
        if !e.starts_with("HARNESS-") {
            panic!("VIOLATION C01 {}", e);
        }
    }
    let seeds = vec![u.arbitrary::<u64>().unwrap_or(1)];
    if let Err(e) = c02::check_wire(&c02::NoisyCase { msg, seeds }, &mut st) {
        if !e.starts_with("HARNESS-") {
            panic!("VIOLATION C02 {}", e);
        }
    }
});
