//! Client simulator: a real `StunClient` driven in lock-step with a tracker/model under a virtual clock.
//! Every invariant is tagged with the property ids it belongs to; a check raises only its own.

pub mod hgen;
pub mod packet;
pub mod types;

pub use packet::*;
pub use types::*;

use crate::refcodec::*;
use crate::report::{guard, Ctx, Guard, Stats};
use std::collections::HashSet;
use std::sync::OnceLock;
use std::time::{Duration, Instant};
use stun_agent::{
    CredentialMechanism, Integrity, RttConfig, StunAgentError, StunAttributes, StunClient, StunClientEvent,
    StunClienteBuilder, StunTransactionError, TransportReliability, VerifSnapshot,
};
use stun_rs::MessageMethod;

static BASE: OnceLock<Instant> = OnceLock::new();
pub fn base() -> Instant {
    *BASE.get_or_init(Instant::now)
}
pub fn at(ns: u64) -> Instant {
    base() + Duration::from_nanos(ns)
}
pub fn ns_of(i: Instant) -> u64 {
    i.saturating_duration_since(base()).as_nanos() as u64
}

#[derive(Clone, Copy, Debug, PartialEq, Eq)]
pub enum FinalKind {
    Delivered,
    FailedTimedOut,
    FailedProtection,
    FailedDoNotRetry,
    FailedOther,
    Retry,
}

#[derive(Clone, Debug)]
pub struct Req {
    pub tid: [u8; 12],
    pub method: u16,
    pub t0: u64,
    pub rto: u64,
    pub slots: Vec<u64>,
    pub deadline: u64,
    pub expiry: u64,
    pub transmissions: u32,
    pub retransmitted: bool,
    pub packet: Vec<u8>,
    pub fin: Option<(FinalKind, u64)>,
    /// Some(true) a failing response was ignored; Some(false) none; None unconstrained (after a both-attribute response)
    pub marked: Option<bool>,
    pub srv_key: Vec<u8>,
    pub srv_sha: bool,
    /// first controller call at or after the deadline has happened and the request was still awaiting afterwards
    pub overdue: bool,
}

/// What the harness's own parser says about a buffer handed to the client.
#[derive(Clone, Debug, Default)]
pub struct Facts {
    pub ref_ok: bool,
    pub typed_ok: bool,
    pub class: u8,
    pub tid: [u8; 12],
    /// first FINGERPRINT present / verifies
    pub fp: Option<bool>,
    /// admitted MESSAGE-INTEGRITY present / verifies under `key`
    pub mi: Option<bool>,
    pub sha: Option<bool>,
    pub error_code: Option<u16>,
    pub realm: Option<String>,
    pub nonce: Option<String>,
    pub algs: Option<Vec<RAlg>>,
    pub cookie_algs_bit: bool,
    pub cookie_anon_bit: bool,
}

pub fn cookie_bits(nonce: &str) -> Option<(bool, bool)> {
    // own parser: "obMatJos2" + 4 base64 characters encoding 24 feature bits
    let rest = nonce.strip_prefix("obMatJos2")?;
    let b: Vec<u8> = rest.bytes().take(4).collect();
    if b.len() < 4 {
        return None;
    }
    let val = |c: u8| -> Option<u32> {
        Some(match c {
            b'A'..=b'Z' => c - b'A',
            b'a'..=b'z' => c - b'a' + 26,
            b'0'..=b'9' => c - b'0' + 52,
            b'+' => 62,
            b'/' => 63,
            _ => return None,
        } as u32)
    };
    let n = (val(b[0])? << 18) | (val(b[1])? << 12) | (val(b[2])? << 6) | val(b[3])?;
    Some((n & 0x800000 != 0, n & 0x400000 != 0))
}

pub fn facts_of(bytes: &[u8], key: &[u8]) -> Facts {
    let mut f = Facts::default();
    let Ok(w) = ref_decode(bytes) else { return f };
    f.ref_ok = true;
    f.class = w.class;
    f.tid = w.tid;
    let types: Vec<u16> = w.attrs.iter().map(|a| a.typ).collect();
    let adm = ref_admitted(&types);
    f.typed_ok = true;
    for (i, a) in w.attrs.iter().enumerate() {
        let parsed = parse_attr(a, &w.tid);
        if parsed.is_err() {
            f.typed_ok = false;
        }
        if !adm[i] {
            continue;
        }
        match a.typ {
            T_FINGERPRINT => {
                if f.fp.is_none() {
                    f.fp = Some(verify_at(bytes, a, &[]));
                }
            }
            T_MI => f.mi = Some(verify_at(bytes, a, key)),
            T_MI_SHA256 => f.sha = Some(verify_at(bytes, a, key)),
            _ => match parsed {
                Ok(RAttr::ErrorCode { code, .. }) => {
                    if f.error_code.is_none() {
                        f.error_code = Some(code)
                    }
                }
                Ok(RAttr::Realm(r)) => {
                    if f.realm.is_none() {
                        f.realm = Some(r)
                    }
                }
                Ok(RAttr::Nonce(n)) => {
                    if f.nonce.is_none() {
                        if let Some((a, u)) = cookie_bits(&n) {
                            f.cookie_algs_bit = a;
                            f.cookie_anon_bit = u;
                        }
                        f.nonce = Some(n)
                    }
                }
                Ok(RAttr::PasswordAlgorithms(l)) => {
                    if f.algs.is_none() {
                        f.algs = Some(l)
                    }
                }
                _ => {}
            },
        }
    }
    f
}

pub struct Sim {
    pub client: StunClient,
    pub cfg: ClientCfg,
    pub now: u64,
    pub reqs: Vec<Req>,
    pub tids: HashSet<[u8; 12]>,
    pub ind_tids: Vec<[u8; 12]>,
    pub st_agreed: Option<bool>,
    pub lt_state: LtState,
    pub lt_sess: Option<LtSess>,
    pub desync: bool,
    /// controller timer armed from the most recent notification (absolute fire time)
    pub armed: Option<u64>,
    pub sent_ok: u64,
    pub finals_seen: u64,
    pub post_final_events: u64,
    pub late_timer_calls: u64,
    pub skipped_slots: u64,
    pub max_concurrency: usize,
    pub refusals: u64,
    pub rejected_while_outstanding: u64,
    pub limit_hit_after_failure: bool,
    pub had_failure_final: bool,
    pub deliveries_to_finished: u64,
    pub bad_fp_to_outstanding: u64,
    pub lt_states_seen: u8,
}

pub fn tid_of(t: &stun_rs::TransactionId) -> [u8; 12] {
    *t.as_bytes()
}

fn fmt_tid(t: &[u8; 12]) -> String {
    crate::report::hex(&t[..4])
}

impl Sim {
    pub fn new(cfg: &ClientCfg) -> Result<Sim, String> {
        let rel = match cfg.reliable {
            Some(ms) => TransportReliability::Reliable(Duration::from_millis(ms)),
            None => TransportReliability::Unreliable(RttConfig {
                rto: Duration::from_micros(cfg.rto_us),
                granularity: Duration::from_micros(cfg.gran_us),
                rm: cfg.rm,
                rc: cfg.rc,
            }),
        };
        // the three optional builder calls are made in an order that depends on the configuration: what the client is
        // must not depend on the order in which it was described
        let mut b = StunClienteBuilder::new(rel);
        const ORDERS: [[u8; 3]; 6] = [[0, 1, 2], [0, 2, 1], [1, 0, 2], [1, 2, 0], [2, 0, 1], [2, 1, 0]];
        let order = ORDERS[(cfg.max_tx + cfg.rc as usize + cfg.rm as usize + cfg.user.len()) % 6];
        for step in order {
            b = match step {
                0 => b.with_max_transactions(cfg.max_tx),
                1 => match &cfg.mech {
                    Mech::None => b,
                    Mech::ShortTerm(i) => b.with_mechanism(
                        cfg.user.clone(),
                        cfg.password.clone(),
                        CredentialMechanism::ShortTerm(i.map(|s| if s { Integrity::MessageIntegritySha256 } else { Integrity::MessageIntegrity })),
                    ),
                    Mech::LongTerm => b.with_mechanism(cfg.user.clone(), cfg.password.clone(), CredentialMechanism::LongTerm),
                },
                _ => {
                    if cfg.fingerprint {
                        b.with_fingerprint()
                    } else {
                        b
                    }
                }
            };
        }
        let client = b.build().map_err(|e| format!("client build failed: {}", e))?;
        let _ = base();
        Ok(Sim {
            client,
            cfg: cfg.clone(),
            now: 0,
            reqs: Vec::new(),
            tids: HashSet::new(),
            ind_tids: Vec::new(),
            st_agreed: match cfg.mech {
                Mech::ShortTerm(a) => a,
                _ => None,
            },
            lt_state: LtState::First,
            lt_sess: None,
            desync: false,
            armed: None,
            sent_ok: 0,
            finals_seen: 0,
            post_final_events: 0,
            late_timer_calls: 0,
            skipped_slots: 0,
            max_concurrency: 0,
            refusals: 0,
            rejected_while_outstanding: 0,
            limit_hit_after_failure: false,
            had_failure_final: false,
            deliveries_to_finished: 0,
            bad_fp_to_outstanding: 0,
            lt_states_seen: 0,
        })
    }

    /// long-term: is the session key known to the harness (see `key_alg_certain`)?
    pub fn lt_key_certain(&self) -> bool {
        match (&self.cfg.mech, &self.lt_sess) {
            (Mech::LongTerm, Some(s)) => key_alg_certain(s, None).is_some(),
            _ => true,
        }
    }

    pub fn awaiting(&self) -> Vec<usize> {
        (0..self.reqs.len()).filter(|i| self.reqs[*i].fin.is_none()).collect()
    }
    pub fn finished(&self) -> Vec<usize> {
        (0..self.reqs.len()).filter(|i| self.reqs[*i].fin.is_some()).collect()
    }
    pub fn min_expiry(&self) -> Option<u64> {
        self.awaiting().iter().map(|i| self.reqs[*i].expiry).min()
    }
    fn req_index(&self, tid: &[u8; 12]) -> Option<usize> {
        self.reqs.iter().position(|r| &r.tid == tid)
    }

    pub fn cred_view(&self) -> CredView {
        match self.cfg.mech {
            Mech::None => CredView::None,
            Mech::ShortTerm(_) => CredView::ShortTerm { agreed: self.st_agreed },
            Mech::LongTerm => CredView::LongTerm {
                state: self.lt_state,
                sess: self.lt_sess.clone(),
            },
        }
    }

    fn to_attrs(app: &[RAttr]) -> StunAttributes {
        let mut a = StunAttributes::default();
        for x in app {
            if let Ok(l) = crate::conv::to_lib_app(x) {
                a.add(l);
            }
        }
        a
    }

    /// key a (lenient) server would use for a request just emitted, and whether it answers with SHA256
    pub fn server_key_for(&self, info: Option<&PacketInfo>) -> (Vec<u8>, bool) {
        match self.cfg.mech {
            Mech::None => (Vec::new(), false),
            Mech::ShortTerm(_) => (
                KeySpec::ShortTerm(self.cfg.password.clone()).key_bytes(),
                self.st_agreed == Some(true),
            ),
            Mech::LongTerm => match &self.lt_sess {
                None => (Vec::new(), false),
                Some(s) => {
                    let preferred = match &s.algs {
                        Some(l) if l.iter().any(|a| a.id == 2) => 2,
                        _ => 1,
                    };
                    let alg = key_alg_certain(s, info.and_then(|i| i.chosen_alg)).unwrap_or(preferred);
                    (
                        KeySpec::LongTerm {
                            user: ref_opaque(&self.cfg.user),
                            realm: s.realm.clone(),
                            password: self.cfg.password.clone(),
                            alg,
                        }
                        .key_bytes(),
                        s.algs.is_some(),
                    )
                }
            },
        }
    }

    fn snapshot(&self) -> VerifSnapshot {
        self.client.verif_snapshot()
    }

    /// hook-based structural invariants evaluated after every operation
    fn check_hooks(&self, snap: &VerifSnapshot, out: &mut Vec<Finding>) {
        let start = out.len();
        let awaiting: Vec<[u8; 12]> = self.awaiting().iter().map(|i| self.reqs[*i].tid).collect();
        for r in self.reqs.iter().filter(|r| r.fin.is_some()) {
            if snap.outstanding.iter().any(|(t, _, _)| tid_of(t) == r.tid) {
                out.push(finding(
                    &["C05", "C12"],
                    format!("transaction {} reached a final outcome ({:?}) but is still in the outstanding table", fmt_tid(&r.tid), r.fin.unwrap().0),
                ));
            }
            // a timer entry that outlives its transaction is internal bookkeeping as long as it is never surfaced
            // (an implementation may purge lazily): what the properties forbid is a notification, packet or event for a
            // finished transaction, and those are checked on the events themselves
        }
        for t in &awaiting {
            // an awaiting request without any timer entry can never be retransmitted or time out
            let n = snap.timeouts.iter().filter(|(x, _, _)| tid_of(x) == *t).count();
            if n == 0 {
                out.push(finding(&["C11"], format!("awaiting transaction {} has no pending timer entry", fmt_tid(t))));
            }
            if !snap.outstanding.iter().any(|(x, _, _)| tid_of(x) == *t) {
                out.push(finding(&["C05", "C12"], format!("awaiting transaction {} is not in the outstanding table", fmt_tid(t))));
            }
        }
        for (t, armed, dur) in &snap.timeouts {
            let t = tid_of(t);
            if let Some(i) = self.req_index(&t) {
                if self.reqs[i].fin.is_none() {
                    let e = ns_of(*armed) + dur.as_nanos() as u64;
                    if e != self.reqs[i].expiry {
                        out.push(finding(
                            &["C06"],
                            format!(
                                "transaction {} is armed for t0+{}ns but the RFC schedule says t0+{}ns",
                                fmt_tid(&t),
                                e as i128 - self.reqs[i].t0 as i128,
                                self.reqs[i].expiry - self.reqs[i].t0
                            ),
                        ));
                    }
                }
            }
        }
        for f in out[start..].iter_mut() {
            f.soft = true;
        }
    }

    /// C11: notification existence and accuracy against the tracker's pending deadlines
    fn check_notification(&mut self, events: &[Ev], snap: &VerifSnapshot, out: &mut Vec<Finding>) {
        let notes: Vec<&Ev> = events.iter().filter(|e| matches!(e, Ev::Rto(..))).collect();
        let any_awaiting = !self.awaiting().is_empty();
        if notes.len() > 1 {
            out.push(finding(&["C11"], format!("{} timeout notifications issued by one call", notes.len())));
        }
        match (notes.first(), any_awaiting) {
            (None, true) => out.push(finding(&["C11"], "a request is still awaiting a response but no timeout notification was issued".into())),
            (Some(_), false) => out.push(finding(&["C11", "C05"], "timeout notification issued although no request is awaiting a response".into())),
            _ => {}
        }
        if let Some(Ev::Rto(tid, dur)) = notes.first() {
            match self.req_index(tid) {
                Some(i) if self.reqs[i].fin.is_some() => {
                    out.push(finding(&["C05", "C11"], format!("timeout notification names finished transaction {}", fmt_tid(tid))));
                }
                None => out.push(finding(&["C11"], format!("timeout notification names unknown transaction {}", fmt_tid(tid)))),
                _ => {}
            }
            // pending deadlines are the model's (next unused slot or final deadline of each awaiting request, RFC 8489
            // schedule from the RTO read at send time); the hook's timer entries are only compared with them under C06
            let _ = snap;
            let min = self.awaiting().iter().map(|i| self.reqs[*i].expiry).min();
            if let Some(min) = min {
                let named = self.req_index(tid).filter(|i| self.reqs[*i].fin.is_none()).map(|i| self.reqs[i].expiry);
                if named != Some(min) {
                    out.push(finding(
                        &["C11"],
                        format!(
                            "notification names transaction {} (pending deadline {:?}) but the earliest pending deadline is {}",
                            fmt_tid(tid),
                            named,
                            min
                        ),
                    ));
                }
                let want = min.saturating_sub(self.now);
                if *dur != want {
                    out.push(finding(
                        &["C11"],
                        format!("notification gives {} ns remaining, the earliest deadline is {} ns away", dur, want),
                    ));
                }
                self.armed = Some(self.now + *dur);
            }
        }
    }
}

/// Events in harness form.
#[derive(Clone, Debug)]
pub enum Ev {
    Packet(Vec<u8>),
    Rto([u8; 12], u64),
    Retry([u8; 12]),
    Failed([u8; 12], FinalKind),
    Received { tid: [u8; 12], class: u8 },
}

pub fn convert_events(evs: Vec<StunClientEvent>) -> Vec<Ev> {
    evs.into_iter()
        .map(|e| match e {
            StunClientEvent::OutputPacket(p) => Ev::Packet(p.to_vec()),
            StunClientEvent::RestransmissionTimeOut((t, d)) => Ev::Rto(tid_of(&t), d.as_nanos() as u64),
            StunClientEvent::Retry(t) => Ev::Retry(tid_of(&t)),
            StunClientEvent::TransactionFailed((t, r)) => Ev::Failed(
                tid_of(&t),
                match r {
                    StunTransactionError::TimedOut => FinalKind::FailedTimedOut,
                    StunTransactionError::ProtectionViolated => FinalKind::FailedProtection,
                    StunTransactionError::DoNotRetry => FinalKind::FailedDoNotRetry,
                    _ => FinalKind::FailedOther,
                },
            ),
            StunClientEvent::StunMessageReceived(m) => Ev::Received {
                tid: tid_of(m.transaction_id()),
                class: crate::conv::class_num(m.class()),
            },
        })
        .collect()
}

mod step;
pub use step::*;

/// Decide what to do with the findings of one step: Err = a finding of a focused property (raise);
/// Ok(false) = only other properties' invariants deviated (end the case without an alarm); Ok(true) = go on.
/// All findings of the step are looked at before giving up on the case, so an unfocused finding never hides a focused one.
pub fn judge_findings(findings: Vec<Finding>, focus: &[&str], ctx: &Ctx, st: &mut Stats) -> Result<bool, (String, String)> {
    let mut diverged: Option<String> = None;
    for f in findings {
        let in_focus = f.tags.iter().any(|t| focus.contains(t));
        if let Some(sig) = f.known {
            if in_focus {
                if ctx.is_known(sig) {
                    st.known(sig);
                    continue;
                }
            } else {
                st.class("tolerated-known-deviation-outside-focus");
                continue;
            }
        }
        if in_focus {
            return Err((f.tags.join(","), f.msg));
        }
        if f.soft {
            st.class(&format!("hook-observation-outside-focus:{}", f.tags.join(",")));
            continue;
        }
        if diverged.is_none() {
            diverged = Some(f.tags.join(","));
        }
    }
    if let Some(t) = diverged {
        st.class(&format!("diverged-outside-focus:{}", t));
        return Ok(false);
    }
    Ok(true)
}

/// Run a whole history; raise only findings tagged with a property in `focus`.
pub fn run_history(h: &History, focus: &[&str], ctx: &Ctx, st: &mut Stats, drain: bool) -> Result<Option<Sim>, String> {
    let mut sim = match Sim::new(&h.cfg) {
        Ok(s) => s,
        Err(e) => {
            st.class(&format!("client-not-constructible:{}", crate::codec::reject_class(&e)));
            return Ok(None);
        }
    };
    let judge = |findings: Vec<Finding>, i: usize, what: &str, st: &mut Stats| -> Result<bool, String> {
        judge_findings(findings, focus, ctx, st).map_err(|(tags, msg)| format!("[{}] step {} {}: {}", tags, i, what, msg))
    };
    for (i, op) in h.ops.iter().enumerate() {
        let findings = match guard(|| sim.step(op)) {
            Guard::Ok(f) => f,
            Guard::LibPanic(m) => {
                if focus.contains(&"C03") {
                    return Err(format!("[C03] step {} {}: client panicked: {}", i, op_name(op), m));
                }
                st.class("client-panicked-outside-focus:C03");
                return Ok(None);
            }
            Guard::HarnessPanic(m) => return Err(format!("HARNESS-{}", m)),
        };
        if !judge(findings, i, &op_name(op), st)? {
            return Ok(Some(sim));
        }
    }
    if drain {
        let findings = match guard(|| sim.drain(&h.lates)) {
            Guard::Ok(f) => f,
            Guard::LibPanic(m) => {
                if focus.contains(&"C03") {
                    return Err(format!("[C03] drain: client panicked: {}", m));
                }
                st.class("client-panicked-outside-focus:C03");
                return Ok(None);
            }
            Guard::HarnessPanic(m) => return Err(format!("HARNESS-{}", m)),
        };
        if !judge(findings, h.ops.len(), "drain", st)? {
            return Ok(Some(sim));
        }
    }
    Ok(Some(sim))
}

pub fn op_name(op: &Op) -> String {
    match op {
        Op::Send { method, attrs, small_buf } => format!("Send(method {:#x}, {} app attrs{})", method, attrs.len(), if *small_buf { ", small buffer" } else { "" }),
        Op::Indication { method, attrs } => format!("Indication(method {:#x}, {} app attrs)", method, attrs.len()),
        Op::Advance(d) => format!("Advance({} ns)", d),
        Op::AdvanceHalfRtos(m) => format!("AdvanceHalfRtos({})", m),
        Op::Timer(k) => format!("Timer({:?})", k),
        Op::Deliver(r) => format!("Deliver({:?})", r),
        Op::DeliverRaw(b) => format!("DeliverRaw({} bytes)", b.len()),
        Op::DeliverMutated { reply, muts, fix_fp } => format!("DeliverMutated({:?}, {} mutations, fix_fp={})", reply.body, muts.len(), fix_fp),
    }
}

pub fn is_max_outstanding(e: &StunAgentError) -> bool {
    matches!(e, StunAgentError::MaxOutstandingRequestsReached)
}

pub fn method_of(m: u16) -> MessageMethod {
    MessageMethod::try_from(m & 0xFFF).unwrap()
}
