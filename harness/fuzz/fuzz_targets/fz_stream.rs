#![no_main]
//! C16 + C03: arbitrary stream bytes in an arbitrary chunking through the reassembler, compared with the
//! reference splitter.  Layout: [buffer selector][number of cuts n][n cut bytes][stream...]
use libfuzzer_sys::fuzz_target;
use rustun_verif::props::c16;

fuzz_target!(|data: &[u8]| {
    if let Err(e) = c16::check_raw_stream(data) {
        if !e.starts_with("HARNESS-") {
            panic!("VIOLATION C16 {}", e);
        }
    }
});
