//! Structure-aware byte mutators applied to reference-encoded messages (the TLV layout is known).

use crate::refcodec::*;
use proptest::prelude::*;
use serde::{Deserialize, Serialize};

#[derive(Clone, Debug, PartialEq, Eq, Hash, Serialize, Deserialize)]
pub enum Mutation {
    FlipBit(u32),
    SetByte(u32, u8),
    /// truncate at TLV boundary `idx` (mod n+1) plus delta in -1..=1; header length left as is
    Truncate(u16, i8),
    /// truncate and fix the header length so the message stays self-consistent
    TruncateFix(u16, i8),
    /// header length edit: 0 => +1, 1 => -1, 2 => +4, 3 => -4, 4 => 0, 5 => 0xFFFF, 6 => exact remaining-4
    HeaderLen(u8),
    /// attribute length field edit (same codes as HeaderLen) on attribute idx
    AttrLen(u16, u8),
    /// edit the 16-bit field at offset 2 inside the value (nested length of PASSWORD-ALGORITHM(S) entries)
    NestedLen(u16, u8),
    Dup(u16),
    Swap(u16, u16),
    Remove(u16),
    /// insert a byte sequence (selector) into the value of attribute idx at offset off, lengths re-computed
    Inject(u16, u16, u8),
    /// overwrite bytes of the value (same length) with the selected sequence at offset off
    Overwrite(u16, u16, u8),
    /// give attribute idx another type code
    Retype(u16, u16),
    AppendJunk(Vec<u8>),
    /// add a fresh attribute (type, value) at position idx, lengths re-computed
    InsertAttr(u16, u16, Vec<u8>),
}

const SEQS: [&[u8]; 17] = [
    b"=",
    b"==",
    b"obMatJos2gA==",
    b"\xc3\xa9",
    b"\xe3\x83\x9e",
    b"\xf0\x9f\x98\x80",
    b"\"",
    b"\\",
    b"\r",
    b"\n",
    b"\t",
    b"\x00",
    b"\xff",
    b"\xc3",
    b" ",
    b"\xc2\x80",
    b"\xed\xa0\x80",
];

#[derive(Clone, Debug)]
struct Item {
    typ: u16,
    value: Vec<u8>,
    /// explicit length field override
    len_override: Option<u16>,
}

fn edit16(v: u16, code: u8, exact: u16) -> u16 {
    match code % 7 {
        0 => v.wrapping_add(1),
        1 => v.wrapping_sub(1),
        2 => v.wrapping_add(4),
        3 => v.wrapping_sub(4),
        4 => 0,
        5 => 0xFFFF,
        _ => exact,
    }
}

/// Apply the mutations in order.  Structural mutations rebuild a consistent message; raw ones edit bytes.
pub fn apply(bytes: &[u8], tlv: &[Tlv], muts: &[Mutation]) -> Vec<u8> {
    let mut header: Vec<u8> = bytes[..20.min(bytes.len())].to_vec();
    let mut items: Vec<Item> = tlv
        .iter()
        .map(|t| Item {
            typ: t.typ,
            value: bytes[t.val_off..t.val_off + t.val_len].to_vec(),
            len_override: None,
        })
        .collect();
    let mut raw_ops: Vec<&Mutation> = Vec::new();
    for m in muts {
        let n = items.len();
        match m {
            Mutation::Dup(i) if n > 0 => {
                let it = items[*i as usize % n].clone();
                items.insert((*i as usize % n) + 1, it);
            }
            Mutation::Swap(i, j) if n > 1 => {
                items.swap(*i as usize % n, *j as usize % n);
            }
            Mutation::Remove(i) if n > 0 => {
                items.remove(*i as usize % n);
            }
            Mutation::Inject(i, off, sel) if n > 0 => {
                let it = &mut items[*i as usize % n];
                let o = if it.value.is_empty() { 0 } else { *off as usize % (it.value.len() + 1) };
                let s = SEQS[*sel as usize % SEQS.len()];
                it.value.splice(o..o, s.iter().copied());
            }
            Mutation::Overwrite(i, off, sel) if n > 0 => {
                let it = &mut items[*i as usize % n];
                let s = SEQS[*sel as usize % SEQS.len()];
                if it.value.len() >= s.len() {
                    let o = *off as usize % (it.value.len() - s.len() + 1);
                    it.value[o..o + s.len()].copy_from_slice(s);
                }
            }
            Mutation::Retype(i, t) if n > 0 => {
                let k = KNOWN_TYPES[*t as usize % KNOWN_TYPES.len()];
                items[*i as usize % n].typ = if t & 0x8000 != 0 { *t } else { k };
            }
            Mutation::AttrLen(i, code) if n > 0 => {
                let it = &mut items[*i as usize % n];
                let l = it.value.len() as u16;
                it.len_override = Some(edit16(l, *code, l.wrapping_add(3) & !3));
            }
            Mutation::NestedLen(i, code) if n > 0 => {
                let it = &mut items[*i as usize % n];
                if it.value.len() >= 4 {
                    let cur = u16::from_be_bytes([it.value[2], it.value[3]]);
                    let exact = (it.value.len() - 4) as u16;
                    let v = edit16(cur, *code, exact);
                    it.value[2..4].copy_from_slice(&v.to_be_bytes());
                }
            }
            Mutation::InsertAttr(i, t, v) => {
                let pos = if n == 0 { 0 } else { *i as usize % (n + 1) };
                items.insert(
                    pos,
                    Item {
                        typ: *t,
                        value: v.clone(),
                        len_override: None,
                    },
                );
            }
            other => raw_ops.push(other),
        }
    }
    // serialise
    let mut out = header.clone();
    out.resize(20, 0);
    let mut boundaries = vec![20usize];
    for it in &items {
        out.extend_from_slice(&it.typ.to_be_bytes());
        let l = it.len_override.unwrap_or(it.value.len() as u16);
        out.extend_from_slice(&l.to_be_bytes());
        out.extend_from_slice(&it.value);
        while out.len() % 4 != 0 {
            out.push(0);
        }
        boundaries.push(out.len());
    }
    let l = (out.len() - 20) as u16;
    out[2..4].copy_from_slice(&l.to_be_bytes());
    header.clear();
    for m in raw_ops {
        match m {
            Mutation::FlipBit(p) => {
                if !out.is_empty() {
                    let p = *p as usize % (out.len() * 8);
                    out[p / 8] ^= 0x80 >> (p % 8);
                }
            }
            Mutation::SetByte(p, b) => {
                if !out.is_empty() {
                    let p = *p as usize % out.len();
                    out[p] = *b;
                }
            }
            Mutation::Truncate(i, d) | Mutation::TruncateFix(i, d) => {
                let b = boundaries[*i as usize % boundaries.len()] as i64 + *d as i64;
                let b = b.clamp(0, out.len() as i64) as usize;
                out.truncate(b);
                if matches!(m, Mutation::TruncateFix(..)) && out.len() >= 20 {
                    let l = (out.len() - 20) as u16;
                    out[2..4].copy_from_slice(&l.to_be_bytes());
                }
            }
            Mutation::HeaderLen(code) => {
                if out.len() >= 4 {
                    let cur = u16::from_be_bytes([out[2], out[3]]);
                    let v = edit16(cur, *code, cur.wrapping_sub(4));
                    out[2..4].copy_from_slice(&v.to_be_bytes());
                }
            }
            Mutation::AppendJunk(j) => out.extend_from_slice(j),
            _ => {}
        }
    }
    out
}

pub fn kind(m: &Mutation) -> &'static str {
    match m {
        Mutation::FlipBit(_) => "flip-bit",
        Mutation::SetByte(..) => "set-byte",
        Mutation::Truncate(..) => "truncate",
        Mutation::TruncateFix(..) => "truncate-fix-length",
        Mutation::HeaderLen(_) => "header-length",
        Mutation::AttrLen(..) => "attr-length",
        Mutation::NestedLen(..) => "nested-length",
        Mutation::Dup(_) => "duplicate-attr",
        Mutation::Swap(..) => "swap-attrs",
        Mutation::Remove(_) => "remove-attr",
        Mutation::Inject(..) => "inject-bytes",
        Mutation::Overwrite(..) => "overwrite-bytes",
        Mutation::Retype(..) => "retype",
        Mutation::AppendJunk(_) => "append-junk",
        Mutation::InsertAttr(..) => "insert-attr",
    }
}

pub fn arb_mutation() -> BoxedStrategy<Mutation> {
    prop_oneof![
        3 => any::<u32>().prop_map(Mutation::FlipBit),
        2 => (any::<u32>(), any::<u8>()).prop_map(|(p, b)| Mutation::SetByte(p, b)),
        1 => (any::<u16>(), -1i8..=1).prop_map(|(i, d)| Mutation::Truncate(i, d)),
        1 => (any::<u16>(), -1i8..=1).prop_map(|(i, d)| Mutation::TruncateFix(i, d)),
        1 => (0u8..7).prop_map(Mutation::HeaderLen),
        2 => (any::<u16>(), 0u8..7).prop_map(|(i, c)| Mutation::AttrLen(i, c)),
        2 => (any::<u16>(), 0u8..7).prop_map(|(i, c)| Mutation::NestedLen(i, c)),
        1 => any::<u16>().prop_map(Mutation::Dup),
        1 => (any::<u16>(), any::<u16>()).prop_map(|(i, j)| Mutation::Swap(i, j)),
        1 => any::<u16>().prop_map(Mutation::Remove),
        4 => (any::<u16>(), prop_oneof![0u16..16, any::<u16>()], any::<u8>()).prop_map(|(i, o, s)| Mutation::Inject(i, o, s)),
        4 => (any::<u16>(), prop_oneof![0u16..16, any::<u16>()], any::<u8>()).prop_map(|(i, o, s)| Mutation::Overwrite(i, o, s)),
        3 => (any::<u16>(), any::<u16>()).prop_map(|(i, t)| Mutation::Retype(i, t)),
        1 => proptest::collection::vec(any::<u8>(), 0..24).prop_map(Mutation::AppendJunk),
        2 => (any::<u16>(), prop_oneof![proptest::sample::select(KNOWN_TYPES.to_vec()), any::<u16>()], proptest::collection::vec(any::<u8>(), 0..40))
            .prop_map(|(i, t, v)| Mutation::InsertAttr(i, t, v)),
    ]
    .boxed()
}

pub fn arb_mutations() -> BoxedStrategy<Vec<Mutation>> {
    proptest::collection::vec(arb_mutation(), 1..=3).boxed()
}
