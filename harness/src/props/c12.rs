//! C12 — the outstanding-request limit counts exactly the unfinished requests.
use super::hist::*;
use crate::report::*;
use crate::sim::hgen::HistOpts;
#[allow(unused_imports)]
use crate::sim::*;
use serde_json::Value;

pub fn prop() -> HistProp {
    HistProp {
        focus: &["C12"],
        opts: HistOpts { max_ops: 50, small_limits: true, send_weight: 9, timer_weight: 6, deliver_weight: 6, ..HistOpts::default() },
        drain: false,
        quick: 150_000,
        thorough: 2_000_000,
        rule: "operation histories generated as one value (sends with application attributes, indications, clock advances, timer calls exact/early/late, replies to outstanding/finished/unknown ids with every authentication and fingerprint variant, 401/438 challenges, garbage and mutated buffers) run against a real client and the reference tracker in lock-step under a virtual clock; limits 0-4 and 10; send_request must return the maximum-outstanding error exactly when (requests sent - requests with a final outcome) equals the limit, a refusal produces no event and an unchanged snapshot, indications never change the table; thorough adds random walks of 400 operations; non-trivial = the limit was hit after at least one failure-path final outcome (time-out, authentication failure, retry); distinct = hash of the history",
        assumptions: &["final outcomes are counted from the observed events"],
        nontrivial: |_, s| s.limit_hit_after_failure,
    }
}
pub fn run(ctx: &Ctx) -> RunResult {
    let mut rr = super::hist::run(ctx, &prop());
    if ctx.tier == Tier::Thorough {
        let hp = HistProp { opts: HistOpts { max_ops: 400, ..prop().opts }, thorough: 3_000, ..prop() };
        let r = super::hist::run(ctx, &hp);
        rr.stats.merge(r.stats);
        rr.violations.extend(r.violations);
    }
    rr
}
pub fn replay(ctx: &Ctx, check: &str, case: &Value) -> Result<(), String> {
    super::hist::replay(ctx, &prop(), check, case)
}
