#!/bin/bash
# sensitivity.sh [first] [last]: re-applies every saved change of sensitivity.tsv (seeded changes, hand mutants, sub-agent batches,
# permitted changes) one at a time, runs the named check (ALL = all 19) at the quick tier and compares the exit code with the
# expectation (1 = must be caught, 0 = must stay silent).  SCRATCH=1 uses the private copy made by mutants/scratch.sh.
# Output: one line per row; exit 1 if any row deviates.
cd /verif
REPO=/repo; VERIF=/verif
if [ "${SCRATCH:-0}" != "0" ]; then [ "$SCRATCH" = "1" ] && { mutants/scratch.sh sync || exit 2; }; S=${SCRATCH_DIR:-/tmp/rv-scratch}; REPO=$S/repo; VERIF=$S/verif; fi
[ -n "$(git -C $REPO status --porcelain)" ] && { echo "$REPO not clean"; exit 2; }
ALL="C01 C02 C03 C04 C05 C06 C07 C08 C09 C10 C11 C12 C13 C14 C15 C16 C17 C18 C19"
first=${1:-1}; last=${2:-100000}; n=0; bad=0
while IFS=$'\t' read -r patch check expect; do
  n=$((n+1)); [ $n -lt $first ] && continue; [ $n -gt $last ] && break
  if ! git -C $REPO apply "/verif/$patch" 2>/dev/null; then echo "$n $patch APPLY-FAILED"; bad=1; continue; fi
  ids="$check"; [ "$check" = "ALL" ] && ids="$ALL"
  for id in $ids; do
    $VERIF/verif.sh "$id" quick >/dev/null 2>&1; rc=$?
    if [ "$rc" = "$expect" ]; then echo "$n $patch $id exit $rc ok"; else echo "$n $patch $id exit $rc EXPECTED $expect"; bad=1; fi
  done
  git -C $REPO checkout -- .
done < sensitivity.tsv
exit $bad
