//! Run context, statistics, evidence files, replay files, known findings, sharded proptest runner.

use proptest::strategy::Strategy;
use proptest::test_runner::{Config, RngSeed, TestCaseError, TestError, TestRunner};
use serde::Serialize;
use serde_json::{json, Value};
use std::cell::RefCell;
use std::collections::hash_map::DefaultHasher;
use std::collections::{BTreeMap, HashSet};
use std::hash::{Hash, Hasher};
use std::panic::{catch_unwind, AssertUnwindSafe};
use std::path::PathBuf;
use std::time::Instant;

#[derive(Clone, Copy, Debug, PartialEq, Eq)]
pub enum Tier {
    Quick,
    Thorough,
}

#[derive(Clone, Debug)]
pub struct KnownFinding {
    pub property: String,
    pub signature: String,
    pub text: String,
}

pub struct Ctx {
    pub prop: String,
    pub tier: Tier,
    pub seed: u64,
    pub verif_dir: PathBuf,
    pub start: Instant,
    pub known: Vec<KnownFinding>,
    pub strict: bool,
    pub threads: usize,
}

impl Ctx {
    pub fn new(prop: &str, tier: Tier) -> Ctx {
        let seed = std::env::var("VERIF_SEED")
            .ok()
            .and_then(|s| s.trim().parse::<i128>().ok())
            .map(|v| (v.rem_euclid(1i128 << 62)) as u64)
            .unwrap_or(1);
        let verif_dir = std::env::var("VERIF_DIR")
            .map(PathBuf::from)
            .unwrap_or_else(|_| PathBuf::from("/verif"));
        let known = load_known(&verif_dir);
        let threads = std::env::var("VERIF_THREADS")
            .ok()
            .and_then(|s| s.parse().ok())
            .unwrap_or(16);
        Ctx {
            prop: prop.to_string(),
            tier,
            seed,
            verif_dir,
            start: Instant::now(),
            known,
            strict: false,
            threads,
        }
    }
    pub fn pick<T>(&self, quick: T, thorough: T) -> T {
        match self.tier {
            Tier::Quick => quick,
            Tier::Thorough => thorough,
        }
    }
    /// A finding listed in KNOWN_FINDINGS.txt for this property (never consulted in strict replay mode).
    pub fn is_known(&self, signature: &str) -> bool {
        !self.strict
            && self
                .known
                .iter()
                .any(|k| k.property == self.prop && k.signature == signature)
    }
    pub fn sub_seed(&self, name: &str, shard: u64) -> u64 {
        let mut h = DefaultHasher::new();
        // DefaultHasher::new() uses fixed keys: deterministic across runs
        self.seed.hash(&mut h);
        self.prop.hash(&mut h);
        name.hash(&mut h);
        shard.hash(&mut h);
        h.finish()
    }
}

fn load_known(dir: &PathBuf) -> Vec<KnownFinding> {
    let mut out = Vec::new();
    if let Ok(s) = std::fs::read_to_string(dir.join("KNOWN_FINDINGS.txt")) {
        for line in s.lines() {
            let line = line.trim();
            if let Some(rest) = line.strip_prefix("known:") {
                let mut prop = String::new();
                let mut sig = String::new();
                let mut text = Vec::new();
                for tok in rest.split_whitespace() {
                    if let Some(p) = tok.strip_prefix("property=") {
                        if prop.is_empty() {
                            prop = p.to_string();
                            continue;
                        }
                    }
                    if let Some(p) = tok.strip_prefix("signature=") {
                        if sig.is_empty() {
                            sig = p.to_string();
                            continue;
                        }
                    }
                    text.push(tok);
                }
                if !prop.is_empty() && !sig.is_empty() {
                    out.push(KnownFinding {
                        property: prop,
                        signature: sig,
                        text: text.join(" "),
                    });
                }
            }
        }
    }
    out
}

pub fn hash_of<T: Hash>(v: &T) -> u64 {
    let mut h = DefaultHasher::new();
    v.hash(&mut h);
    h.finish()
}

#[derive(Default, Debug)]
pub struct Stats {
    pub evaluations: u64,
    pub nontrivial: HashSet<u64>,
    pub classes: BTreeMap<String, u64>,
    pub samples: Vec<Value>,
    pub known_hits: BTreeMap<String, u64>,
    pub counters: BTreeMap<String, u64>,
    pub exhaustive: Option<bool>,
    pub notes: Vec<String>,
}

pub const MAX_SAMPLES: usize = 6;

impl Stats {
    pub fn class(&mut self, name: &str) {
        *self.classes.entry(name.to_string()).or_insert(0) += 1;
    }
    pub fn class_n(&mut self, name: &str, n: u64) {
        *self.classes.entry(name.to_string()).or_insert(0) += n;
    }
    pub fn count(&mut self, name: &str, n: u64) {
        *self.counters.entry(name.to_string()).or_insert(0) += n;
    }
    pub fn nontrivial<T: Hash>(&mut self, v: &T) {
        self.nontrivial.insert(hash_of(v));
    }
    pub fn known(&mut self, sig: &str) {
        *self.known_hits.entry(sig.to_string()).or_insert(0) += 1;
    }
    pub fn wants_sample(&self) -> bool {
        self.samples.len() < MAX_SAMPLES
    }
    pub fn sample(&mut self, v: Value) {
        if self.samples.len() < MAX_SAMPLES {
            self.samples.push(v);
        }
    }
    pub fn merge(&mut self, o: Stats) {
        self.evaluations += o.evaluations;
        self.nontrivial.extend(o.nontrivial);
        for (k, v) in o.classes {
            *self.classes.entry(k).or_insert(0) += v;
        }
        for (k, v) in o.known_hits {
            *self.known_hits.entry(k).or_insert(0) += v;
        }
        for (k, v) in o.counters {
            *self.counters.entry(k).or_insert(0) += v;
        }
        for s in o.samples {
            if self.samples.len() < MAX_SAMPLES * 3 {
                self.samples.push(s);
            }
        }
        if let Some(e) = o.exhaustive {
            self.exhaustive = Some(self.exhaustive.unwrap_or(true) && e);
        }
        self.notes.extend(o.notes);
    }
}

#[derive(Clone, Debug)]
pub struct Violation {
    pub check: String,
    pub reason: String,
    pub case: Value,
}

/// Result of one guarded library call sequence.
pub enum Guard<T> {
    Ok(T),
    /// panic raised from library code (location outside the harness)
    LibPanic(String),
    /// panic raised from harness code: the harness is broken, never a violation
    HarnessPanic(String),
}

thread_local! {
    static LAST_PANIC: RefCell<Option<(String, String)>> = const { RefCell::new(None) };
}

pub fn install_panic_hook() {
    std::panic::set_hook(Box::new(|info| {
        let loc = info
            .location()
            .map(|l| format!("{}:{}", l.file(), l.line()))
            .unwrap_or_else(|| "?".to_string());
        let msg = if let Some(s) = info.payload().downcast_ref::<&str>() {
            s.to_string()
        } else if let Some(s) = info.payload().downcast_ref::<String>() {
            s.clone()
        } else {
            "<non-string panic>".to_string()
        };
        LAST_PANIC.with(|p| *p.borrow_mut() = Some((loc, msg)));
    }));
}

pub fn guard<T>(f: impl FnOnce() -> T) -> Guard<T> {
    LAST_PANIC.with(|p| *p.borrow_mut() = None);
    match catch_unwind(AssertUnwindSafe(f)) {
        Ok(v) => Guard::Ok(v),
        Err(_) => {
            let (loc, msg) = LAST_PANIC
                .with(|p| p.borrow_mut().take())
                .unwrap_or(("?".into(), "?".into()));
            let text = format!("panic at {}: {}", loc, truncate(&msg, 200));
            // harness code is compiled from its own crate root, so its panic locations are relative ("src/sim/step.rs");
            // library code is a path dependency outside that root (absolute path), its dependencies live in the cargo
            // registry and std under /rustc/
            if loc.starts_with("src/") || loc.contains("/verif/") || loc.contains("harness/src") || loc.contains("harness/fuzz") {
                Guard::HarnessPanic(text)
            } else {
                Guard::LibPanic(text)
            }
        }
    }
}

/// Guarded call whose panic is turned into an Err string ("panic at ...").
pub fn guard_str<T>(f: impl FnOnce() -> T) -> Result<T, String> {
    match guard(f) {
        Guard::Ok(v) => Ok(v),
        Guard::LibPanic(s) => Err(s),
        Guard::HarnessPanic(s) => Err(format!("HARNESS-{}", s)),
    }
}

pub fn truncate(s: &str, n: usize) -> String {
    if s.len() <= n {
        s.to_string()
    } else {
        let mut e = n;
        while !s.is_char_boundary(e) {
            e -= 1;
        }
        format!("{}…", &s[..e])
    }
}

/// Run `cases` generated cases split over shards (threads); returns merged stats and the first violation
/// (lowest shard index) shrunk by proptest.
pub fn run_prop<T, S, M, F>(ctx: &Ctx, check: &str, cases: u64, mk: M, f: F) -> (Stats, Option<Violation>)
where
    S: Strategy<Value = T>,
    T: std::fmt::Debug + Serialize + Clone,
    M: Fn() -> S + Sync,
    F: Fn(&T, &mut Stats) -> Result<(), String> + Sync,
{
    let shards = ctx.threads.max(1) as u64;
    let per = cases.div_ceil(shards).max(1);
    let mut results: Vec<(Stats, Option<Violation>)> = Vec::new();
    // The library logs through the `log` facade, whose macros evaluate their arguments only when the global maximum
    // level admits the record: the first half of the cases runs with logging off (the default of a process that installs
    // no logger), the second half with the maximum level at Trace, so that code whose behaviour depends on whether a log
    // argument is evaluated is seen both ways.  The level is process-global, hence two phases and not a per-case choice.
    for (phase, level) in [(0u64, log::LevelFilter::Off), (1u64, log::LevelFilter::Trace)] {
        let n = if phase == 0 { per / 2 } else { per - per / 2 };
        if n == 0 {
            continue;
        }
        if results.iter().any(|r| r.1.is_some()) {
            break;
        }
        log::set_max_level(level);
        std::thread::scope(|sc| {
            let mut handles = Vec::new();
            for shard in 0..shards {
                let mk = &mk;
                let f = &f;
                let seed = ctx.sub_seed(check, shard + 1000 * phase);
                let check = check.to_string();
                handles.push(
                    std::thread::Builder::new()
                        .stack_size(64 << 20)
                        .spawn_scoped(sc, move || run_shard(seed, &check, n, mk, f))
                        .expect("spawn"),
                );
            }
            for h in handles {
                let mut r = h.join().expect("shard thread panicked");
                r.0.class(if phase == 0 { "log-level:off" } else { "log-level:trace" });
                if let Some(v) = r.1.as_mut() {
                    if phase == 1 {
                        v.reason = format!("{} [with the log facade's maximum level at Trace]", v.reason);
                    }
                }
                results.push(r);
            }
        });
    }
    log::set_max_level(log::LevelFilter::Off);
    let mut total = Stats::default();
    let mut viol = None;
    for (st, v) in results {
        total.merge(st);
        if viol.is_none() {
            viol = v;
        }
    }
    (total, viol)
}

fn seed_bytes(seed: u64) -> [u8; 32] {
    let mut out = [0u8; 32];
    let mut x = seed;
    for chunk in out.chunks_mut(8) {
        x = x.wrapping_mul(0x9E3779B97F4A7C15).wrapping_add(0xD1B54A32D192ED03);
        let mut z = x;
        z = (z ^ (z >> 30)).wrapping_mul(0xBF58476D1CE4E5B9);
        z = (z ^ (z >> 27)).wrapping_mul(0x94D049BB133111EB);
        z ^= z >> 31;
        chunk.copy_from_slice(&z.to_le_bytes());
    }
    out
}

fn run_shard<T, S, M, F>(seed: u64, check: &str, cases: u64, mk: &M, f: &F) -> (Stats, Option<Violation>)
where
    S: Strategy<Value = T>,
    T: std::fmt::Debug + Serialize + Clone,
    M: Fn() -> S,
    F: Fn(&T, &mut Stats) -> Result<(), String>,
{
    let _ = seed_bytes;
    let config = Config {
        cases: cases.min(u32::MAX as u64) as u32,
        failure_persistence: None,
        max_shrink_iters: 4000,
        rng_seed: RngSeed::Fixed(seed),
        verbose: 0,
        ..Config::default()
    };
    let mut runner = TestRunner::new(config);
    let strategy = mk();
    let stats = RefCell::new(Stats::default());
    let failed = std::cell::Cell::new(false);
    let res = runner.run(&strategy, |v| {
        let mut scratch = Stats::default();
        let r = if failed.get() {
            guard(|| f(&v, &mut scratch))
        } else {
            let mut st = stats.borrow_mut();
            st.evaluations += 1;
            guard(|| f(&v, &mut st))
        };
        match r {
            Guard::Ok(Ok(())) => Ok(()),
            Guard::Ok(Err(msg)) => {
                failed.set(true);
                Err(TestCaseError::fail(msg))
            }
            Guard::LibPanic(msg) => {
                failed.set(true);
                Err(TestCaseError::fail(msg))
            }
            Guard::HarnessPanic(msg) => {
                failed.set(true);
                Err(TestCaseError::fail(format!("HARNESS-{}", msg)))
            }
        }
    });
    let st = stats.into_inner();
    match res {
        Ok(()) => (st, None),
        Err(TestError::Fail(reason, value)) => {
            let v = Violation {
                check: check.to_string(),
                reason: reason.message().to_string(),
                case: serde_json::to_value(&value).unwrap_or(Value::Null),
            };
            (st, Some(v))
        }
        Err(TestError::Abort(reason)) => {
            let mut st = st;
            st.notes.push(format!("proptest aborted: {}", reason.message()));
            (st, None)
        }
    }
}

/// Run an explicit (enumerated) list of cases over shards.
pub fn run_enum<T, F>(ctx: &Ctx, check: &str, cases: &[T], f: F) -> (Stats, Option<Violation>)
where
    T: Serialize + Sync,
    F: Fn(&T, &mut Stats) -> Result<(), String> + Sync,
{
    let shards = ctx.threads.max(1);
    let chunk = cases.len().div_ceil(shards).max(1);
    let mut results: Vec<(Stats, Option<Violation>)> = Vec::new();
    std::thread::scope(|sc| {
        let mut handles = Vec::new();
        for part in cases.chunks(chunk) {
            let f = &f;
            let check = check.to_string();
            handles.push(
                std::thread::Builder::new()
                    .stack_size(64 << 20)
                    .spawn_scoped(sc, move || {
                        let mut st = Stats::default();
                        for c in part {
                            st.evaluations += 1;
                            let r = guard(|| f(c, &mut st));
                            let msg = match r {
                                Guard::Ok(Ok(())) => continue,
                                Guard::Ok(Err(m)) => m,
                                Guard::LibPanic(m) => m,
                                Guard::HarnessPanic(m) => format!("HARNESS-{}", m),
                            };
                            return (
                                st,
                                Some(Violation {
                                    check,
                                    reason: msg,
                                    case: serde_json::to_value(c).unwrap_or(Value::Null),
                                }),
                            );
                        }
                        (st, None)
                    })
                    .expect("spawn"),
            );
        }
        for h in handles {
            results.push(h.join().expect("enum thread panicked"));
        }
    });
    let mut total = Stats::default();
    let mut viol = None;
    for (st, v) in results {
        total.merge(st);
        if viol.is_none() {
            viol = v;
        }
    }
    (total, viol)
}

pub struct RunResult {
    pub stats: Stats,
    pub violations: Vec<Violation>,
    pub rule: String,
    pub assumptions: Vec<String>,
    pub level: String,
}

impl RunResult {
    pub fn new(rule: &str) -> Self {
        RunResult {
            stats: Stats::default(),
            violations: Vec::new(),
            rule: rule.to_string(),
            assumptions: Vec::new(),
            level: "exploration".to_string(),
        }
    }
    pub fn absorb(&mut self, r: (Stats, Option<Violation>)) {
        self.stats.merge(r.0);
        if let Some(v) = r.1 {
            self.violations.push(v);
        }
    }
    pub fn ok(&self) -> bool {
        self.violations.is_empty()
    }
}

pub fn write_replay(ctx: &Ctx, v: &Violation) -> PathBuf {
    let dir = ctx.verif_dir.join("replays");
    let _ = std::fs::create_dir_all(&dir);
    let body = json!({
        "property": ctx.prop,
        "check": v.check,
        "reason": v.reason,
        "seed": ctx.seed,
        "case": v.case,
    });
    let text = serde_json::to_string_pretty(&body).unwrap();
    let h = hash_of(&text);
    let path = dir.join(format!("{}-{:016x}.json", ctx.prop, h));
    let _ = std::fs::write(&path, text);
    path
}

pub fn write_evidence(ctx: &Ctx, rr: &RunResult) -> Result<(), String> {
    let dir = ctx.verif_dir.join("evidence");
    std::fs::create_dir_all(&dir).map_err(|e| e.to_string())?;
    let st = &rr.stats;
    let mut samples = st.samples.clone();
    samples.truncate(MAX_SAMPLES);
    let mut coverage = json!({
        "evaluations": st.evaluations,
        "distinct_nontrivial": st.nontrivial.len(),
        "rule": rr.rule,
        "samples": samples,
        "classes": st.classes,
        "counters": st.counters,
        "known_findings_hit": st.known_hits,
        "notes": st.notes,
    });
    if let Some(e) = st.exhaustive {
        coverage["exhaustive"] = json!(e);
    }
    let body = json!({
        "property_id": ctx.prop,
        "tier": match ctx.tier { Tier::Quick => "quick", Tier::Thorough => "thorough" },
        "seed": ctx.seed,
        "level": rr.level,
        "coverage": coverage,
        "assumptions": rr.assumptions,
        "wall_s": ctx.start.elapsed().as_secs_f64(),
        "violations": rr.violations.len(),
    });
    let path = dir.join(format!("{}.json", ctx.prop));
    std::fs::write(&path, serde_json::to_string_pretty(&body).unwrap()).map_err(|e| e.to_string())
}

pub fn hex(b: &[u8]) -> String {
    b.iter().map(|x| format!("{:02x}", x)).collect()
}

pub fn unhex(s: &str) -> Vec<u8> {
    let s: Vec<u8> = s.bytes().filter(|c| c.is_ascii_hexdigit()).collect();
    s.chunks(2)
        .filter(|c| c.len() == 2)
        .map(|c| u8::from_str_radix(std::str::from_utf8(c).unwrap(), 16).unwrap())
        .collect()
}
