//! Client simulator: configuration, operations and reply construction.

use crate::refcodec::*;
use serde::{Deserialize, Serialize};

#[derive(Clone, Debug, PartialEq, Eq, Hash, Serialize, Deserialize)]
pub enum Mech {
    None,
    /// short-term; preconfigured algorithm: None, Some(false)=MESSAGE-INTEGRITY, Some(true)=SHA256
    ShortTerm(Option<bool>),
    LongTerm,
}

#[derive(Clone, Debug, PartialEq, Eq, Hash, Serialize, Deserialize)]
pub struct ClientCfg {
    /// Some(timeout in ms) = reliable transport
    pub reliable: Option<u64>,
    pub rto_us: u64,
    pub gran_us: u64,
    pub rm: u32,
    pub rc: u32,
    pub mech: Mech,
    pub fingerprint: bool,
    pub max_tx: usize,
    pub user: String,
    pub password: String,
}

impl ClientCfg {
    pub fn default_unreliable() -> Self {
        ClientCfg {
            reliable: None,
            rto_us: 500_000,
            gran_us: 1_000,
            rm: 16,
            rc: 7,
            mech: Mech::None,
            fingerprint: false,
            max_tx: 10,
            user: "user".into(),
            password: "secret-pass".into(),
        }
    }
}

#[derive(Clone, Debug, PartialEq, Eq, Hash, Serialize, Deserialize)]
pub enum TimerKind {
    /// call exactly at the earliest armed expiry
    Exact,
    /// call d ns before the earliest armed expiry
    Early(u64),
    /// call d ns after the earliest armed expiry
    Late(u64),
    /// call at the current instant
    Now,
    /// call m half-RTOs (of the earliest-expiring request) after the earliest armed expiry: lands exactly on later
    /// slots and on the deadline
    LateHalfRtos(u8),
}

#[derive(Clone, Debug, PartialEq, Eq, Hash, Serialize, Deserialize)]
pub enum Target {
    Outstanding(u8),
    Finished(u8),
    Unknown([u8; 12]),
}

#[derive(Clone, Debug, PartialEq, Eq, Hash, Serialize, Deserialize)]
pub enum Auth {
    None,
    ValidMi,
    ValidSha,
    /// the algorithm the request's server would use (MI, or SHA256 when algorithms were offered / agreed)
    ValidExpected,
    Both,
    CorruptMi,
    CorruptSha,
    WrongKeyMi,
    WrongKeySha,
}

#[derive(Clone, Debug, PartialEq, Eq, Hash, Serialize, Deserialize)]
pub enum FpMode {
    Absent,
    Valid,
    Corrupt,
    /// placed before the other attributes but computed as if it were last (wrong for its position)
    Misplaced,
    /// a FINGERPRINT with a wrong value followed by a second one that is correct for everything before it
    CorruptThenValid,
}

#[derive(Clone, Debug, PartialEq, Eq, Hash, Serialize, Deserialize)]
pub enum Body {
    Success,
    Error(u16),
    /// 401 challenge: algs 0 none, 1 [MD5,SHA256], 2 [SHA256], 3 [MD5], 4 only unsupported, 5 [SHA256,MD5], 6-7 with unknown
    /// entries, 8-9 supported entries carrying parameters;
    /// cookie: nonce is a nonce cookie (bits follow algs/anon); plain nonce otherwise
    Lt401 {
        algs: u8,
        anon: bool,
        cookie: bool,
        realm: u8,
        nonce: u8,
        drop_realm: bool,
        drop_nonce: bool,
    },
    Lt438 {
        nonce: u8,
        drop_nonce: bool,
    },
    Indication,
    Request,
}

#[derive(Clone, Debug, PartialEq, Eq, Hash, Serialize, Deserialize)]
pub struct Reply {
    pub target: Target,
    pub body: Body,
    pub extra: u8,
    pub auth: Auth,
    pub fp: FpMode,
    pub dup: bool,
    /// duplicates with DIFFERENT values appended after the genuine attributes (the client must use the first):
    /// bit 0 second REALM, bit 1 second NONCE, bit 2 second ERROR-CODE, bit 3 second PASSWORD-ALGORITHMS;
    /// bit 4: a 438 carries a PASSWORD-ALGORITHMS list that differs from the one of the session;
    /// bit 5: the second NONCE (bit 1) is a nonce cookie with the opposite feature bits instead of a plain nonce;
    /// bit 6: a 401 / 438 whose nonce cookie announces password algorithms comes without the PASSWORD-ALGORITHMS list
    #[serde(default)]
    pub twist: u8,
}

#[derive(Clone, Debug, PartialEq, Eq, Hash, Serialize, Deserialize)]
pub enum Op {
    Send { method: u16, attrs: Vec<RAttr>, small_buf: bool },
    Indication { method: u16, attrs: Vec<RAttr> },
    Advance(u64),
    /// advance the clock by m half-RTOs of the most recently sent request (aligns later sends with slots of earlier ones)
    AdvanceHalfRtos(u8),
    Timer(TimerKind),
    Deliver(Reply),
    DeliverRaw(Vec<u8>),
    /// a well-formed reply damaged by structure-aware mutations; fix_fp re-appends a correct FINGERPRINT
    DeliverMutated { reply: Reply, muts: Vec<crate::mutate::Mutation>, fix_fp: bool },
}

#[derive(Clone, Debug, PartialEq, Eq, Hash, Serialize, Deserialize)]
pub struct History {
    pub cfg: ClientCfg,
    pub ops: Vec<Op>,
    /// lateness (ns) of the simulated controller's calls during the final drain
    pub lates: Vec<u64>,
}

pub const REALMS: [&str; 4] = ["example.org", "realm two", "r", "a-much-longer-realm.example.com"];

pub fn nonce_text(sel: u8, cookie: bool, algs_bit: bool, anon_bit: bool) -> String {
    // a few server nonces look like a nonce cookie with a malformed feature field (base64 padding, short field)
    match sel % 9 {
        6 => return "obMatJos2gAA=padded-feature-field".to_string(),
        7 => return "obMatJos2gA==padded-feature-field".to_string(),
        8 => return "obMatJos2AA".to_string(),
        _ => {}
    }
    let tail = ["f//499k954d6OL34oL9FSTvy64sA", "nonce-2", "n3n3n3", "AAAA", "zz~zz", "another.nonce.value"][sel as usize % 6];
    if cookie {
        let b0: u8 = ((algs_bit as u8) << 7) | ((anon_bit as u8) << 6);
        format!("obMatJos2{}{}", crate::gen::b64(&[b0, 0, 0]), tail)
    } else {
        tail.to_string()
    }
}

pub fn alg_list(sel: u8) -> Option<Vec<RAlg>> {
    let a = |id: u16| RAlg { id, params: vec![] };
    match sel % 10 {
        0 => None,
        1 => Some(vec![a(1), a(2)]),
        2 => Some(vec![a(2)]),
        3 => Some(vec![a(1)]),
        4 => Some(vec![a(7), RAlg { id: 0x99, params: vec![1, 2, 3] }]),
        5 => Some(vec![a(2), a(1)]),
        // supported algorithms mixed with unknown entries that carry parameters (must be echoed byte for byte)
        6 => Some(vec![RAlg { id: 0x99, params: vec![1, 2, 3] }, a(2)]),
        7 => Some(vec![a(1), RAlg { id: 0x1234, params: vec![0xAB] }, a(2), RAlg { id: 0, params: vec![9, 9] }]),
        // supported algorithms whose entries carry parameters (unusual, legal): the chosen PASSWORD-ALGORITHM must be the
        // offered entry, parameters included
        8 => Some(vec![RAlg { id: 2, params: vec![1, 2, 3, 4] }]),
        _ => Some(vec![RAlg { id: 1, params: vec![9] }, RAlg { id: 2, params: vec![7, 7] }]),
    }
}

/// Build a message: attrs, then optional integrity attributes and fingerprint as specified.
#[allow(clippy::too_many_arguments)]
pub fn build_message(
    method: u16,
    class: u8,
    tid: [u8; 12],
    mut attrs: Vec<RAttr>,
    key: &[u8],
    auth: &Auth,
    expected_sha: bool,
    fp: &FpMode,
) -> Vec<u8> {
    let k = |fault: Fault| MacSpec::Keyed {
        key: KeySpec::Raw(key.to_vec()),
        fault,
    };
    let mi = |f: Fault| RAttr::Mi(k(f));
    let sha = |f: Fault| RAttr::MiSha256(k(f));
    match auth {
        Auth::None => {}
        Auth::ValidMi => attrs.push(mi(Fault::Correct)),
        Auth::ValidSha => attrs.push(sha(Fault::Correct)),
        Auth::ValidExpected => attrs.push(if expected_sha { sha(Fault::Correct) } else { mi(Fault::Correct) }),
        Auth::Both => {
            attrs.push(mi(Fault::Correct));
            attrs.push(sha(Fault::Correct));
        }
        Auth::CorruptMi => attrs.push(mi(Fault::FlipBit(37))),
        Auth::CorruptSha => attrs.push(sha(Fault::FlipBit(101))),
        Auth::WrongKeyMi => attrs.push(mi(Fault::WrongKey)),
        Auth::WrongKeySha => attrs.push(sha(Fault::WrongKey)),
    }
    match fp {
        FpMode::Absent => {}
        FpMode::Valid => attrs.push(RAttr::Fp(FpSpec::Computed(Fault::Correct))),
        FpMode::Corrupt => attrs.push(RAttr::Fp(FpSpec::Computed(Fault::FlipBit(9)))),
        FpMode::CorruptThenValid => {
            attrs.push(RAttr::Fp(FpSpec::Computed(Fault::FlipBit(9))));
            attrs.push(RAttr::Fp(FpSpec::Computed(Fault::Correct)));
        }
        FpMode::Misplaced => {
            // value computed as if FINGERPRINT were the last attribute, then moved to the front
            let mut tmp = attrs.clone();
            tmp.push(RAttr::Fp(FpSpec::Computed(Fault::Correct)));
            let enc = ref_encode(
                &RMsg {
                    method,
                    class,
                    tid,
                    attrs: tmp,
                },
                &mut Noise::zero(),
            );
            let t = enc.tlv.last().unwrap();
            let v = enc.bytes[t.val_off..t.val_off + 4].to_vec();
            attrs.insert(0, RAttr::Fp(FpSpec::Wire(v)));
        }
    }
    ref_encode(
        &RMsg {
            method,
            class,
            tid,
            attrs,
        },
        &mut Noise::zero(),
    )
    .bytes
}
