//! One module per property; each exposes `run(&Ctx) -> RunResult` and `replay(&Ctx, check, case)`.
use crate::report::{Ctx, RunResult};
use serde_json::Value;

macro_rules! props {
    ($(($id:literal, $m:ident)),* $(,)?) => {
        $(pub mod $m;)*
        pub fn run(ctx: &Ctx) -> Option<RunResult> {
            match ctx.prop.as_str() {
                $($id => Some($m::run(ctx)),)*
                _ => None,
            }
        }
        pub fn replay(ctx: &Ctx, check: &str, case: &Value) -> Option<Result<(), String>> {
            match ctx.prop.as_str() {
                $($id => Some($m::replay(ctx, check, case)),)*
                _ => None,
            }
        }
    };
}

pub mod c10_client;
pub mod hist;

props!(("C01", c01), ("C02", c02), ("C03", c03), ("C04", c04), ("C05", c05), ("C06", c06), ("C07", c07), ("C08", c08), ("C09", c09), ("C10", c10), ("C11", c11), ("C12", c12), ("C13", c13), ("C14", c14), ("C15", c15), ("C16", c16), ("C17", c17), ("C18", c18), ("C19", c19));
