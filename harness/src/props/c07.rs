//! C07 — short-term credentials: only authenticated messages are delivered.
use super::hist::*;
use crate::report::*;
use crate::sim::hgen::HistOpts;
#[allow(unused_imports)]
use crate::sim::*;
use serde_json::Value;

pub fn prop() -> HistProp {
    HistProp {
        focus: &["C07"],
        opts: HistOpts { mechs: vec![1], max_ops: 30, deliver_weight: 10, timer_weight: 4, hostile: 1, ..HistOpts::default() },
        drain: true,
        quick: 150_000,
        thorough: 2_000_000,
        rule: "operation histories generated as one value (sends with application attributes, indications, clock advances, timer calls exact/early/late, replies to outstanding/finished/unknown ids with every authentication and fingerprint variant, 401/438 challenges, garbage and mutated buffers) run against a real client and the reference tracker in lock-step under a virtual clock; short-term clients only (algorithm preconfigured MI / SHA256 or learned), both transports; every delivered response/indication must carry integrity that verifies under the password with the reference HMAC and uses the agreed algorithm, both-attribute responses are never delivered, single valid replies are delivered, failing replies end the transaction (reliable) or are ignored and turn the final time-out into protection-violated (unreliable), every emitted packet carries USERNAME plus verifying integrity; non-trivial = a transaction that saw a rejected reply and later an accepted or another rejected one, a both-attribute reply, or a reply in the non-agreed algorithm; distinct = hash of the history",
        assumptions: &["the violated marker after a both-attribute response is left unconstrained (the property is silent)"],
        nontrivial: |h, s| s.rejected_while_outstanding > 0 && (s.finals_seen > 0 || h.ops.len() > 6),
    }
}
pub fn run(ctx: &Ctx) -> RunResult {
    super::hist::run(ctx, &prop())
}
pub fn replay(ctx: &Ctx, check: &str, case: &Value) -> Result<(), String> {
    super::hist::replay(ctx, &prop(), check, case)
}
