use rustun_verif::sim::*;
fn main() {
    let p = std::env::args().nth(1).unwrap();
    let v: serde_json::Value = serde_json::from_str(&std::fs::read_to_string(p).unwrap()).unwrap();
    let h: History = serde_json::from_value(v["case"].clone()).unwrap();
    let mut sim = Sim::new(&h.cfg).unwrap();
    for (i, op) in h.ops.iter().enumerate() {
        let f = sim.step(op);
        println!("{:2} now={} armed={:?} awaiting={} findings={:?} {}", i, sim.now, sim.armed, sim.awaiting().len(), f.iter().map(|x| x.tags.join(",")).collect::<Vec<_>>(), op_name(op).chars().take(60).collect::<String>());
    }
}
