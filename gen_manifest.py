#!/usr/bin/env python3
"""Regenerates MANIFEST.json from the table below (kept in one place so it is always schema-valid)."""
import json, subprocess, sys

CLAIMED = {
 "C01": dict(
   technique="property-based testing (proptest): generated messages, encode/decode round trip against an independent reference TLV walk and reference HMAC/CRC",
   text="Generated-input search: 40k (quick) / 1M (thorough) messages built by construction over all 38 attribute kinds, boundary lengths and 7 legal tails are encoded by the library with three paddings/buffer slacks and decoded again; method, class, id, every attribute value and the three sizes are compared. Held means no counterexample in the explored set; failures shrink to a minimal message saved as a replay file.",
   note="Trusted: proptest, the harness's own reference codec/crypto (self-tested against RFC vectors at every start), precis-profiles for the OpaqueString alphabet self-test. Constructors arbitrate what is within documented limits. One feature configuration.",
   ref="3/C01"),
}
WIP = "check not yet built in this round (work in progress, see DESIGN.md section 3)"
ALL = ["C%02d" % i for i in range(1, 20)]

def main():
    hooks_commit = subprocess.run(["git", "-C", "/repo", "log", "--format=%H", "--grep=verif-hooks", "-n", "1"], capture_output=True, text=True).stdout.strip()
    m = {
      "version": 1,
      "setup_cmd": "./setup.sh",
      "hooks": {
        "guard": "cargo feature `verif-hooks` on crate stun-agent (default off)",
        "enable": "the harness crate depends on /repo/stun-agent with features = [\"verif-hooks\"]; every check rebuilds with `cargo build --profile verif --offline` in /verif/harness",
        "baseline_off_cmd": "cd /repo && cargo test --workspace --no-fail-fast --offline",
        "source_commits": [hooks_commit] if hooks_commit else [],
        "add_only": True,
      },
      "engines": [
        {"name": "rustun-verif", "path": "harness", "serves_properties": sorted(CLAIMED), "kind_free_text": "Rust binary: proptest TestRunner (fixed seed from VERIF_SEED, 16 shards), exhaustive enumerators, reference codec/crypto/model oracles"},
      ],
      "checks": [],
      "not_applicable": [],
      "notes": "Exit codes: 0 held, 1 violation (VIOLATION line + replay file under /verif/replays), 2 inconclusive (build failure, self-test failure, harness panic). KNOWN_FINDINGS.txt lists recorded findings and repaired defects.",
    }
    for pid in ALL:
        if pid in CLAIMED:
            c = CLAIMED[pid]
            m["checks"].append({
              "property_id": pid,
              "quick_cmd": "./verif.sh %s quick" % pid,
              "thorough_cmd": "./verif.sh %s thorough" % pid,
              "evidence_file": "/verif/evidence/%s.json" % pid,
              "replay_cmd_template": "./verif.sh %s --replay {path}" % pid,
              "engine": "rustun-verif",
              "level_claimed": {"category": c.get("category", "exploration"), "text": c["text"], "design_ref": "DESIGN.md section " + c["ref"]},
              "level_note": c["note"],
              "technique": c["technique"],
            })
        else:
            m["not_applicable"].append({"property_id": pid, "reason": WIP})
    json.dump(m, open("/verif/MANIFEST.json", "w"), indent=1)
    try:
        import jsonschema
        jsonschema.validate(m, json.load(open("/root/.vp/MANIFEST.schema.json")))
        print("MANIFEST.json valid,", len(m["checks"]), "checks")
    except ImportError:
        print("written (jsonschema not importable here)")

main()
