#!/usr/bin/env python3
"""Regenerates MANIFEST.json from the table below (kept in one place so it is always schema-valid)."""
import json, subprocess, sys

CLAIMED = {
 "C01": dict(
   technique="property-based testing (proptest): generated messages, encode/decode round trip against an independent reference TLV walk and reference HMAC/CRC",
   text="Generated-input search: 40k (quick) / 1M (thorough) messages built by construction over all 38 attribute kinds, boundary lengths and 7 legal tails are encoded by the library with three paddings/buffer slacks and decoded again; method, class, id, every attribute value and the three sizes are compared. Held means no counterexample in the explored set; failures shrink to a minimal message saved as a replay file.",
   note="Trusted: proptest, the harness's own reference codec/crypto (self-tested against RFC vectors at every start), precis-profiles for the OpaqueString alphabet self-test. Constructors arbitrate what is within documented limits. One feature configuration.",
   ref="3/C01"),
 "C02": dict(
   technique="differential testing against an independent reference codec (proptest + exhaustive enumeration of small domains) with metamorphic noise on ignorable bits",
   text="Every generated message's library encoding is compared byte for byte with a reference encoder written from the RFCs, and reference encodings whose padding/reserved bits are set (all ones, random, each bit alone) must decode to the same values, with and without validation. The (method,class) interleaving, all 16-bit type fields, all error codes, all ICMP type/code pairs and every transaction-id bit in the XOR are enumerated completely; the RFC 5769 / RFC 8489 B.1 vectors are fixed seeds checked under the reference crypto.",
   note="Trusted: the harness's reference codec/crypto (RFC interpretations listed in the evidence assumptions), proptest. Held = no disagreement on the explored set.",
   ref="3/C02"),
 "C09": dict(
   technique="exhaustive enumeration of all 87,381 attribute-kind sequences x correctness masks x 16 decoder option combinations against the ordering rule as stated",
   text="All sequences of up to 8 attributes over {ordinary, MI, SHA256, FINGERPRINT} are rendered by the reference encoder with all-correct, every single-incorrect and one pseudo-random MAC/CRC mask and decoded under every option combination; the decoded list must be exactly the admitted subsequence, validation must fail exactly when an admitted verifiable attribute is wrong (or lacks a key), and the agent's own iterator must admit the same positions. The sequence space named by the property is covered completely (exhaustive: true).",
   note="Exhaustive only over the abstract kind sequences; concrete attribute values are fixed representatives. Trusted: reference encoder/crypto, the verif-hooks accessor.",
   ref="3/C09"),
 "C14": dict(
   technique="property-based testing with exhaustive buffer-length sweeps per generated message plus enumerated size-targeted messages around 65,535 attribute bytes",
   text="Each generated message is encoded into every buffer length 0..=needed+8 (sampled above 600 bytes) with three prefills and compared with the reference bytes; success iff the buffer suffices, returned size exact, tail untouched, no panic. Messages with 65,500..65,600, ~70,000 and ~131,080 attribute bytes in several shapes must encode correctly when they fit the 16-bit length and return an error otherwise. The harness is built with overflow checks so wrap-arounds panic, and the size/byte oracle also catches silent wraps.",
   note="Trusted: reference encoder. Nothing is asserted about partial writes after an error.",
   ref="3/C14"),
 "C18": dict(
   technique="metamorphic property-based testing: the same generated/mutated input decoded under all 16 option combinations, results compared pairwise per option axis",
   text="Generated messages with unknown and mis-ordered verifiable attributes, unmutated or with 1-3 structure-aware mutations, are decoded under every option combination and the context-less decoder; validation-success implies identical unvalidated result, unknown-data only adds exactly the raw wire value, the unordered result is every wire attribute in order with the default result its admitted subsequence, no-context equals default context, key irrelevant without validation.",
   note="Library messages are compared through Debug renderings; raw values come from the harness's own TLV walk.",
   ref="3/C18"),
 "C04": dict(
   technique="property-based testing with exhaustive single-bit fault injection over the protected bytes, against an independent HMAC/key-derivation implementation",
   category="fault_enumeration",
   text="For each generated message with an integrity tail the key bytes and the MAC are compared with a reference derivation (own MD5/SHA-1/SHA-256/HMAC), the untampered message must be accepted with validation (also with the other integrity attribute and FINGERPRINT after it), and then every bit of every protected byte and of the MAC is flipped (exhaustive up to 200 protected bytes, 512 sampled positions above) and wrong keys differing in one character / algorithm / mechanism are tried; none may be accepted as authenticated.",
   note="Accepted = validated decode returns the attribute, or its validate() over get_input_text is true. Collisions ignored. Key strings from OpaqueString-stable alphabets.",
   ref="3/C04"),
 "C10": dict(
   technique="property-based testing with exhaustive single-bit / single-byte fault injection against an independent CRC-32, plus model-based client histories",
   category="fault_enumeration",
   text="Codec: the wire CRC of every generated message equals the reference CRC-32 of the prefix with adjusted length XOR 0x5354554e; every single-bit fault at every bit and four byte substitutions at every byte (exhaustive up to 300 bytes) must never be accepted as carrying a valid FINGERPRINT. Client: histories of a fingerprint-configured client under every credential mechanism check that every emitted packet ends with a valid FINGERPRINT and that nothing is delivered or completed by a message whose FINGERPRINT is absent, corrupted or misplaced.",
   note="Trusted: reference CRC (self-tested), reference codec, client model in sim/.",
   ref="3/C10"),
 "C16": dict(
   technique="property-based testing with exhaustive 2-cut / 3-cut chunking enumeration per generated stream against a trivial reference splitter",
   text="Streams of 1-3 reference-encoded packets (optionally with a bad header or an oversized packet at position k, or a truncated trailing packet) are fed whole, byte by byte, with generated multi-cuts and with all 2-cut (<=120/300 bytes) and 3-cut (<=48/80 bytes) chunkings including empty chunks; packets, consumed counts, missing-byte reports and the error (type, size, consumed, buffer handed back) must equal the reference splitter's for every chunking.",
   note="The controller loop (fresh decoder after each packet, remainder of the chunk re-fed) is the harness's reading of the API.",
   ref="3/C16"),
 "C19": dict(
   technique="exhaustive enumeration of u16/u8 domains plus property-based testing of constructors/accessors and model-based clone/mutate sequences under catch_unwind",
   text="All u16 and u8 values go through every small-domain conversion with results compared to the RFC bit layouts; generated Unicode strings (controls, combining marks, format characters, astral, lengths around 508/509/763) through every string and key constructor; nonce cookies with a multi-byte character at each byte offset 0..16; every attribute kind through all as_/is_/expect_ accessors; clone-then-mutate sequences on PasswordAlgorithms, UnknownAttributes and StunAttributes against a Vec model. A panic located in library code is a violation.",
   note="expect_* only on the matching variant. Panic attribution by source location.",
   ref="3/C19"),
}
WIP = "check not yet built in this round (work in progress, see DESIGN.md section 3)"
ALL = ["C%02d" % i for i in range(1, 20)]

def main():
    hooks_commit = subprocess.run(["git", "-C", "/repo", "log", "--format=%H", "--grep=verif-hooks", "-n", "1"], capture_output=True, text=True).stdout.strip()
    m = {
      "version": 1,
      "setup_cmd": "./setup.sh",
      "hooks": {
        "guard": "cargo feature `verif-hooks` on crate stun-agent (default off)",
        "enable": "the harness crate depends on /repo/stun-agent with features = [\"verif-hooks\"]; every check rebuilds with `cargo build --profile verif --offline` in /verif/harness",
        "baseline_off_cmd": "cd /repo && cargo test --workspace --no-fail-fast --offline",
        "source_commits": [hooks_commit] if hooks_commit else [],
        "add_only": True,
      },
      "engines": [
        {"name": "rustun-verif", "path": "harness", "serves_properties": sorted(CLAIMED), "kind_free_text": "Rust binary: proptest TestRunner (fixed seed from VERIF_SEED, 16 shards), exhaustive enumerators, reference codec/crypto/model oracles"},
      ],
      "checks": [],
      "not_applicable": [],
      "notes": "Exit codes: 0 held, 1 violation (VIOLATION line + replay file under /verif/replays), 2 inconclusive (build failure, self-test failure, harness panic). KNOWN_FINDINGS.txt lists recorded findings and repaired defects.",
    }
    for pid in ALL:
        if pid in CLAIMED:
            c = CLAIMED[pid]
            m["checks"].append({
              "property_id": pid,
              "quick_cmd": "./verif.sh %s quick" % pid,
              "thorough_cmd": "./verif.sh %s thorough" % pid,
              "evidence_file": "/verif/evidence/%s.json" % pid,
              "replay_cmd_template": "./verif.sh %s --replay {path}" % pid,
              "engine": "rustun-verif",
              "level_claimed": {"category": c.get("category", "exploration"), "text": c["text"], "design_ref": "DESIGN.md section " + c["ref"]},
              "level_note": c["note"],
              "technique": c["technique"],
            })
        else:
            m["not_applicable"].append({"property_id": pid, "reason": WIP})
    json.dump(m, open("/verif/MANIFEST.json", "w"), indent=1)
    try:
        import jsonschema
        jsonschema.validate(m, json.load(open("/root/.vp/MANIFEST.schema.json")))
        print("MANIFEST.json valid,", len(m["checks"]), "checks")
    except ImportError:
        print("written (jsonschema not importable here)")

main()
