//! C10, client half (filled in once the client simulator exists).
use crate::report::*;
use serde_json::Value;

pub fn run_into(_ctx: &Ctx, _rr: &mut RunResult) {}

pub fn replay(_ctx: &Ctx, check: &str, _case: &Value) -> Result<(), String> {
    Err(format!("HARNESS-unknown check {}", check))
}
