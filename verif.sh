#!/bin/bash
# ./verif.sh <ID> quick|thorough     run the check for one property (rebuilds from /repo's working tree)
# ./verif.sh <ID> --replay <file>    re-run the oracle on a saved failing case (no generators involved)
# exit 0 held / 1 violation (prints "VIOLATION property=<id> replay=<path>") / 2 inconclusive
set -u
ORIG_PWD="$PWD"
cd "$(dirname "$0")/harness" || exit 2
export CARGO_NET_OFFLINE=true
export VERIF_DIR="$(cd .. && pwd)"
BUILD_LOG="$(mktemp /tmp/rustun-verif-build.XXXXXX)"
if ! cargo build --profile verif --offline >"$BUILD_LOG" 2>&1; then
  cat "$BUILD_LOG" | tail -40
  rm -f "$BUILD_LOG"
  echo "INCONCLUSIVE: harness build failed (does /repo still compile?)"
  exit 2
fi
rm -f "$BUILD_LOG"
BIN=target/verif/rustun-verif
ID="$1"; shift
if [ "${1:-}" = "--replay" ]; then
  R="$2"; case "$R" in /*) ;; *) R="$ORIG_PWD/$R";; esac
  exec "$BIN" "$ID" --replay "$R"
fi
TIER="${1:-${VERIF_TIER:-quick}}"
# regression tier: committed minimal cases for this property are replayed first
for f in "$VERIF_DIR"/regress/"$ID"/*.json; do
  [ -e "$f" ] || continue
  "$BIN" "$ID" --replay "$f"
  rc=$?
  if [ $rc -ne 0 ]; then exit $rc; fi
done
if [ "$TIER" = "thorough" ] && [ -x "$VERIF_DIR/fuzz.sh" ]; then
  "$BIN" "$ID" thorough; rc=$?
  if [ $rc -ne 0 ]; then exit $rc; fi
  exec "$VERIF_DIR/fuzz.sh" "$ID"
fi
exec "$BIN" "$ID" "$TIER"
