//! C05 — each request gets at most one final outcome and then falls silent.
use super::hist::*;
use crate::report::*;
use crate::sim::hgen::HistOpts;
use serde_json::Value;

pub fn prop() -> HistProp {
    HistProp {
        focus: &["C05"],
        opts: HistOpts { max_ops: 40, ..HistOpts::default() },
        drain: true,
        quick: 150_000,
        thorough: 2_000_000,
        rule: "operation histories (1-40 ops: sends, indications, clock advances, timer calls exact/early/late up to beyond the deadline, \
replies addressed to outstanding, finished or unknown ids that are valid, duplicated, unauthenticated, wrongly keyed, with good/bad/absent \
fingerprints, 401/438 challenges, raw garbage and mutated replies) against a real client with every credential mechanism on both transports, \
followed by a drain in which a controller follows the notifications; per transaction id at most one final event, no packet/notification/event \
afterwards, responses only for awaiting ids, finished ids absent from the transaction table and timer heap (hook); non-trivial = the history \
delivered at least one buffer carrying the id of an already finished transaction, or a timer fired after a final outcome; distinct = hash of the history",
        assumptions: &["final outcome = StunMessageReceived for a response, TransactionFailed, or Retry"],
        nontrivial: |_, s| s.deliveries_to_finished > 0 || (s.finals_seen > 0 && s.late_timer_calls > 0),
    }
}
pub fn run(ctx: &Ctx) -> RunResult {
    super::hist::run(ctx, &prop())
}
pub fn replay(ctx: &Ctx, check: &str, case: &Value) -> Result<(), String> {
    super::hist::replay(ctx, &prop(), check, case)
}
