//! C06 — requests are retransmitted on the RFC 8489 schedule and fail at the deadline.
use super::hist::*;
use crate::report::*;
use crate::sim::hgen::HistOpts;
#[allow(unused_imports)]
use crate::sim::*;
use serde_json::Value;

pub fn prop() -> HistProp {
    HistProp {
        focus: &["C06"],
        opts: HistOpts { mechs: vec![0, 0, 0, 1, 2], max_ops: 40, reliable_weight: 1, timer_weight: 12, deliver_weight: 2, send_weight: 3, hostile: 0, ..HistOpts::default() },
        drain: true,
        quick: 200_000,
        thorough: 2_000_000,
        rule: "operation histories generated as one value (sends with application attributes, indications, clock advances, timer calls exact/early/late, replies to outstanding/finished/unknown ids with every authentication and fingerprint variant, 401/438 challenges, garbage and mutated buffers) run against a real client and the reference tracker in lock-step under a virtual clock; configurations Rc 1-10, Rm 1-32, RTO 1 ms-3 s, granularity 1 us-100 ms, or reliable with timeout 1 ms-60 s; timer-heavy histories with 1-8 requests started at different instants, optional warm-up exchanges so the RTO is a learned value; every (re)transmission must fall in a timer call at or after an unused slot t0+(2^k-1)RTO (RTO read at send time), at most one per call, at most Rc, byte-identical; failure exactly at the first call at or after t0+(2^(Rc-1)-1+Rm)RTO; the armed expiry equals the model's; plus the fixed default schedule 0/500/1500/3500/7500/15500/31500 ms and failure at 39500 ms; non-trivial = a late call skipped at least one slot, or at least 2 requests were outstanding together; distinct = hash of the history",
        assumptions: &["the per-request RTO is the estimator value read through the hook right after send_request (C15 checks that value separately)"],
        nontrivial: |_, s| s.skipped_slots > 0 || s.max_concurrency >= 2,
    }
}
pub fn run(ctx: &Ctx) -> RunResult {
    let mut rr = super::hist::run(ctx, &prop());
    let mut st = Stats::default();
    if let Err(e) = default_schedule(ctx, &mut st) {
        rr.violations.push(Violation { check: "default-schedule".into(), reason: e, case: Value::Null });
    }
    rr.stats.merge(st);
    rr
}
pub fn replay(ctx: &Ctx, check: &str, case: &Value) -> Result<(), String> {
    if check == "default-schedule" {
        return guard_str(|| default_schedule(ctx, &mut Stats::default()))?;
    }
    super::hist::replay(ctx, &prop(), check, case)
}

/// The fixed schedule named by the property: 0, 500, 1500, 3500, 7500, 15500, 31500 ms and failure at 39500 ms.
pub fn default_schedule(ctx: &Ctx, st: &mut Stats) -> Result<(), String> {
    let cfg = ClientCfg::default_unreliable();
    let mut ops = vec![Op::Send { method: 1, attrs: vec![], small_buf: false }];
    for _ in 0..7 {
        ops.push(Op::Timer(TimerKind::Exact));
    }
    let h = History { cfg, ops, lates: vec![0] };
    st.evaluations += 1;
    let mut sim = Sim::new(&h.cfg)?;
    let want_ms = [500u64, 1500, 3500, 7500, 15500, 31500, 39500];
    for (i, op) in h.ops.iter().enumerate() {
        let f = sim.step(op);
        if let Some(x) = f.iter().find(|x| x.tags.contains(&"C06")) {
            return Err(format!("default schedule, step {}: {}", i, x.msg));
        }
        if i >= 1 {
            if sim.now != want_ms[i - 1] * 1_000_000 {
                return Err(format!("default schedule: timer {} armed for {} ns, expected {} ms", i, sim.now, want_ms[i - 1]));
            }
        }
    }
    let r = &sim.reqs[0];
    if r.transmissions != 7 || r.fin.map(|f| f.0) != Some(FinalKind::FailedTimedOut) || r.fin.map(|f| f.1) != Some(39_500_000_000) {
        return Err(format!("default schedule: {} transmissions, final {:?}", r.transmissions, r.fin));
    }
    let _ = ctx;
    st.nontrivial(&"default-schedule");
    Ok(())
}
