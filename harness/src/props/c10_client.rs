//! C10, client half: a fingerprint-configured client appends a valid FINGERPRINT to everything it sends and
//! never delivers, nor lets complete a transaction, a message whose FINGERPRINT is missing or wrong.
use super::hist::*;
use crate::report::*;
use crate::sim::hgen::HistOpts;
use serde_json::Value;

pub fn prop() -> HistProp {
    HistProp {
        focus: &["C10"],
        opts: HistOpts { max_ops: 30, fingerprint: Some(true), deliver_weight: 9, hostile: 3, app_attrs: true, ..HistOpts::default() },
        drain: false,
        quick: 100_000,
        thorough: 1_000_000,
        rule: "",
        assumptions: &[],
        nontrivial: |_, s| s.bad_fp_to_outstanding > 0,
    }
}

pub fn run_into(ctx: &Ctx, rr: &mut RunResult) {
    let hp = prop();
    let opts = hp.opts.clone();
    rr.absorb(run_prop(ctx, "client-history", ctx.pick(hp.quick, hp.thorough), move || crate::sim::hgen::arb_history(opts.clone()), |h, st| check(&hp, ctx, h, st)));
}

pub fn replay(ctx: &Ctx, check_name: &str, case: &Value) -> Result<(), String> {
    match check_name {
        "client-history" => super::hist::replay(ctx, &prop(), "history", case),
        _ => Err(format!("HARNESS-unknown check {}", check_name)),
    }
}
