#![no_main]
//! C03 + C18: any byte string through the decoder under every option combination, with the semantic
//! oracles (size, prefix-determinism, option relations) inside the target.
use libfuzzer_sys::fuzz_target;
use rustun_verif::props::{c03, c18};
use rustun_verif::report::Stats;

fuzz_target!(|data: &[u8]| {
    let mut st = Stats::default();
    if let Err(e) = c03::check_decode_bytes(data, &mut st) {
        if !e.starts_with("HARNESS-") {
            panic!("VIOLATION C03 {}", e);
        }
    }
    if let Err(e) = c18::check_relations(data, &mut st) {
        if !e.starts_with("HARNESS-") {
            panic!("VIOLATION C18 {}", e);
        }
    }
});
