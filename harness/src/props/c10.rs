//! C10 — FINGERPRINT is the RFC CRC, catches small corruptions, and is enforced by the client.

use crate::codec::*;
use crate::gen::*;
use crate::refcodec::*;
use crate::report::*;
use proptest::prelude::*;
use serde::{Deserialize, Serialize};
use serde_json::{json, Value};
use stun_rs::attributes::stun::Fingerprint;
use stun_rs::StunAttribute;

pub const RULE: &str = "codec: generated messages (0-6 ordinary attributes, optional MI/SHA256, then FINGERPRINT) whose wire CRC is compared with \
the reference CRC-32 of the prefix with adjusted length XOR 0x5354554e, then every single-bit fault at every bit position (exhaustive up to 300 \
bytes, 1024 sampled above) and four single-byte substitutions (0x00, 0xFF, +1, pseudo-random) at every byte; the altered bytes must never be \
accepted as carrying a valid FINGERPRINT; client: histories of a fingerprint-configured client with every credential mechanism receiving \
responses/indications whose FINGERPRINT is valid, corrupted, absent or misplaced, and every emitted packet checked; one evaluation = one message, \
one injected fault or one client history; non-trivial = fault inside the covered prefix (not in the FINGERPRINT value itself), or a client history \
delivering a non-valid fingerprint to an outstanding transaction; distinct = (message, fault) or hash of the history";

#[derive(Clone, Debug, Serialize, Deserialize)]
pub struct FpCase {
    pub prefix: Vec<RAttr>,
    pub key: KeySpec,
    /// 0 none, 1 MI, 2 SHA256, 3 both
    pub integrity: u8,
    pub method: u16,
    pub class: u8,
    pub tid: [u8; 12],
    pub sample_seed: u64,
}

pub fn arb_case() -> BoxedStrategy<FpCase> {
    (
        proptest::collection::vec(
            arb_plain_attr(GenOpts {
                data_max: 60,
                padding_max: 80,
                ..GenOpts::default()
            }),
            0..=6,
        ),
        arb_key(),
        prop_oneof![3 => Just(0u8), 1 => 1u8..=3],
        arb_method(),
        0u8..4,
        arb_tid(),
        any::<u64>(),
    )
        .prop_map(|(prefix, key, integrity, method, class, tid, sample_seed)| FpCase {
            prefix,
            key,
            integrity,
            method,
            class,
            tid,
            sample_seed,
        })
        .boxed()
}

fn build(c: &FpCase) -> RMsg {
    let mut attrs = c.prefix.clone();
    let k = || MacSpec::Keyed {
        key: c.key.clone(),
        fault: Fault::Correct,
    };
    if c.integrity & 1 != 0 {
        attrs.push(RAttr::Mi(k()));
    }
    if c.integrity & 2 != 0 {
        attrs.push(RAttr::MiSha256(k()));
    }
    attrs.push(RAttr::Fp(FpSpec::Computed(Fault::Correct)));
    RMsg {
        method: c.method,
        class: c.class,
        tid: c.tid,
        attrs,
    }
}

/// "accepted as carrying a valid FINGERPRINT": a decode returns a FINGERPRINT attribute that validates.
fn fp_accepted(bytes: &[u8], key: Option<&stun_rs::HMACKey>) -> (bool, &'static str) {
    let is_fp = |a: &StunAttribute| matches!(a, StunAttribute::Fingerprint(_));
    let opts = DecOpts {
        key: key.cloned(),
        validation: true,
        with_ctx: true,
        ..DecOpts::default()
    };
    let mut outcome = "decode-error";
    // a panic on damaged input is not an acceptance (it is a C03 violation, reported by that check)
    let lib_decode = |b: &[u8], o: &DecOpts| match guard(|| crate::codec::lib_decode(b, o)) {
        Guard::Ok(r) => r,
        _ => Err("panic".to_string()),
    };
    if let Ok((m, _)) = lib_decode(bytes, &opts) {
        if m.attributes().iter().any(is_fp) {
            return (true, "validated-decode-accepts");
        }
        outcome = "attribute-absent";
    }
    // a validating decoder stays one whatever other options it was built with
    for (unknown_data, not_ignore) in [(true, false), (false, true), (true, true)] {
        let o2 = DecOpts { unknown_data, not_ignore, ..opts.clone() };
        if let Ok((m, _)) = lib_decode(bytes, &o2) {
            if m.attributes().iter().any(is_fp) {
                return (true, "validated-decode-with-further-options-accepts");
            }
        }
    }
    if let Ok((m, _)) = lib_decode(bytes, &DecOpts::plain()) {
        match m.attributes().iter().find(|a| is_fp(a)) {
            Some(StunAttribute::Fingerprint(f)) => {
                let ok = stun_rs::get_input_text::<Fingerprint>(bytes)
                    .map(|i| f.validate(&i))
                    .unwrap_or(false);
                if ok {
                    return (true, "validate()-accepts");
                }
                if outcome == "decode-error" {
                    outcome = "validation-fails";
                }
            }
            _ => outcome = "attribute-absent",
        }
    }
    (false, outcome)
}

pub fn check_fp(c: &FpCase, st: &mut Stats) -> Result<(), String> {
    let msg = build(c);
    let p = match prepare(&msg) {
        Ok(p) => p,
        Err(e) => {
            st.class(&format!("rejected-by-constructor:{}", reject_class(&e)));
            return Ok(());
        }
    };
    let lkey = crate::conv::lib_key(&c.key).ok();
    let reference = ref_encode(&p.model, &mut Noise::zero());
    let bytes = lib_encode(&p.lib, reference.bytes.len(), None).map_err(|e| format!("encode failed: {}", e))?;
    let wire = ref_decode(&bytes).map_err(|e| format!("reference walk of encoder output failed: {:?}", e))?;
    let fp_idx = wire.attrs.len() - 1;
    if wire.attrs[fp_idx].typ != T_FINGERPRINT {
        return Err("last attribute on the wire is not FINGERPRINT".into());
    }
    if !verify_at(&bytes, &wire.attrs[fp_idx], &[]) {
        let a = &wire.attrs[fp_idx];
        return Err(format!(
            "FINGERPRINT on the wire {} is not CRC-32(prefix with adjusted length) ^ 0x5354554e = {:08x}",
            hex(&a.value),
            crate::refcrypto::crc32(&mac_input(&bytes, a.hdr_off, 4)) ^ FP_XOR
        ));
    }
    let (ok, how) = fp_accepted(&bytes, lkey.as_ref());
    if !ok || how != "validated-decode-accepts" {
        return Err(format!("encoder output is not accepted as carrying a valid FINGERPRINT: {}", how));
    }
    st.class(tail_name(&p.model.attrs));
    let fp_val = wire.attrs[fp_idx].hdr_off + 4;
    let n = bytes.len();
    // single-bit faults
    let bits: Vec<usize> = if n <= 300 {
        st.class("bit-walk:exhaustive");
        (0..n * 8).collect()
    } else {
        st.class("bit-walk:sampled");
        let mut x = c.sample_seed | 1;
        (0..1024)
            .map(|_| {
                x ^= x << 13;
                x ^= x >> 7;
                x ^= x << 17;
                (x as usize) % (n * 8)
            })
            .collect()
    };
    let mut judge = |mutated: &[u8], pos: usize, what: &str, st: &mut Stats| -> Result<(), String> {
        st.evaluations += 1;
        let (ok, how) = match guard(|| fp_accepted(mutated, lkey.as_ref())) {
            Guard::Ok(r) => r,
            Guard::LibPanic(_) => (false, "panic-on-damaged-input"),
            Guard::HarnessPanic(m) => return Err(format!("HARNESS-{}", m)),
        };
        if ok {
            return Err(format!(
                "{} at byte {} (message {} bytes, FINGERPRINT value at {}) and the bytes are still accepted as carrying a valid FINGERPRINT: {}",
                what, pos, n, fp_val, how
            ));
        }
        // a fault in the type / length bytes is also tried with the message sitting in a larger receive buffer (1-3
        // and 8 further bytes behind it): a longer declared length then has something to extend over
        if pos < 4 {
            for extra in [1usize, 2, 3, 8] {
                let mut longer = mutated.to_vec();
                longer.extend(std::iter::repeat(0x5Au8).take(extra));
                let (ok2, how2) = match guard(|| fp_accepted(&longer, lkey.as_ref())) {
                    Guard::Ok(r) => r,
                    Guard::LibPanic(_) => (false, "panic-on-damaged-input"),
                    Guard::HarnessPanic(m) => return Err(format!("HARNESS-{}", m)),
                };
                st.evaluations += 1;
                if ok2 {
                    return Err(format!(
                        "{} at byte {} and, with {} further bytes behind the {}-byte message, the bytes are accepted as carrying a valid FINGERPRINT: {}",
                        what, pos, extra, n, how2
                    ));
                }
            }
        }
        let reg = if pos < 20 {
            "header"
        } else if pos >= fp_val {
            "fp-value"
        } else if pos >= fp_val - 4 {
            "fp-tlv-header"
        } else {
            "covered-attributes"
        };
        st.class(&format!("{}:{}->{}", what, reg, how));
        if pos < fp_val - 4 {
            st.nontrivial(&(&msg, what, pos, mutated[pos]));
        }
        Ok(())
    };
    for bp in bits {
        let mut m = bytes.clone();
        m[bp / 8] ^= 0x80 >> (bp % 8);
        judge(&m, bp / 8, "bit-flip", st)?;
    }
    // single-byte substitutions
    let byte_positions: Vec<usize> = if n <= 300 {
        (0..n).collect()
    } else {
        (0..256).map(|i| (c.sample_seed as usize).wrapping_mul(31).wrapping_add(i * 7919) % n).collect()
    };
    for pos in byte_positions {
        for (k, nb) in [
            0x00u8,
            0xFF,
            bytes[pos].wrapping_add(1),
            (c.sample_seed >> (pos % 56)) as u8 ^ pos as u8,
        ]
        .into_iter()
        .enumerate()
        {
            if nb == bytes[pos] {
                continue;
            }
            let mut m = bytes.clone();
            m[pos] = nb;
            judge(&m, pos, ["byte=00", "byte=ff", "byte+1", "byte=rand"][k], st)?;
        }
    }
    if st.wants_sample() && !c.prefix.is_empty() {
        st.sample(sample_msg(&p.model, &bytes));
    }
    Ok(())
}

pub fn run(ctx: &Ctx) -> RunResult {
    let mut rr = RunResult::new(RULE);
    rr.level = "fault_enumeration".into();
    rr.assumptions = vec![
        "'accepted as carrying a valid FINGERPRINT' = a decode returns a FINGERPRINT attribute and (validated decode succeeded or Fingerprint::validate over get_input_text is true)".into(),
        "CRC-32 detects all single-bit and single-byte (burst <= 8 bit) errors, so no accidental collision is possible in this fault class".into(),
    ];
    rr.absorb(run_prop(ctx, "fingerprint", ctx.pick(4_000, 60_000), arb_case, |c, st| check_fp(c, st)));
    crate::props::c10_client::run_into(ctx, &mut rr);
    rr
}

pub fn replay(ctx: &Ctx, check: &str, case: &Value) -> Result<(), String> {
    let mut st = Stats::default();
    match check {
        "fingerprint" => {
            let c: FpCase = serde_json::from_value(case.clone()).map_err(|e| format!("HARNESS-bad case: {}", e))?;
            guard_str(|| check_fp(&c, &mut st))?
        }
        other => crate::props::c10_client::replay(ctx, other, case),
    }
}

#[allow(dead_code)]
fn _unused() -> Value {
    json!(null)
}
