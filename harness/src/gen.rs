//! proptest strategies for reference-model messages; everything is built by construction from the RFC value
//! spaces (no rejection sampling).

use crate::refcodec::*;
use proptest::collection::vec;
use proptest::prelude::*;

/// Alphabets.  0 ASCII printable, 1 Latin-1 precomposed letters, 2 Greek/Cyrillic, 3 CJK/kana, 4 emoji,
/// 5 mix of 0-4, 6 full ASCII including controls (only for attributes without string validation).
pub fn alpha_char(alpha: u8, r: u16) -> char {
    let pick = |lo: u32, hi: u32, r: u16| char::from_u32(lo + (r as u32) % (hi - lo + 1)).unwrap_or('x');
    match alpha {
        0 => pick(0x20, 0x7E, r),
        1 => {
            // U+C0..U+FF without the two symbols (× ÷)
            let c = pick(0xC0, 0xFF, r);
            if c == '\u{d7}' || c == '\u{f7}' {
                '\u{e9}'
            } else {
                c
            }
        }
        2 => {
            if r & 1 == 0 {
                pick(0x391, 0x3A1, r >> 1)
            } else {
                pick(0x410, 0x44F, r >> 1)
            }
        }
        3 => match r % 3 {
            0 => pick(0x4E00, 0x4FFF, r / 3),
            1 => pick(0x3041, 0x3096, r / 3),
            _ => pick(0x30A1, 0x30FA, r / 3),
        },
        4 => pick(0x1F600, 0x1F640, r),
        5 => alpha_char((r % 5) as u8, r / 5),
        _ => pick(0x00, 0x7F, r),
    }
}

/// Build a string of exactly `len` bytes from the alphabet, cycling through `seed`.
pub fn build_string(len: usize, alpha: u8, seed: &[u16]) -> String {
    let mut s = String::with_capacity(len);
    let mut i = 0usize;
    while s.len() < len {
        let r = if seed.is_empty() { 7 } else { seed[i % seed.len()].wrapping_add((i / seed.len()) as u16) };
        i += 1;
        let c = alpha_char(alpha, r);
        if s.len() + c.len_utf8() <= len {
            s.push(c);
        } else {
            // fill the remainder with ASCII letters
            s.push((b'a' + (r % 26) as u8) as char);
        }
    }
    s
}

/// Boundary-heavy byte length in 0..=limit (every residue mod 4 appears near both ends).
pub fn arb_len(min: usize, limit: usize) -> BoxedStrategy<usize> {
    let lo = min;
    let small_hi = (min + 9).min(limit);
    let near_lo = limit.saturating_sub(5).max(min);
    // lengths around u8 / power-of-two boundaries when the limit allows them
    let marks: Vec<usize> = [15usize, 16, 17, 31, 32, 33, 63, 64, 65, 127, 128, 129, 254, 255, 256, 257, 511, 512, 513, 1023, 1024, 4095, 4096, 32767, 32768]
        .into_iter()
        .filter(|m| *m >= min && *m <= limit)
        .collect();
    let marks = if marks.is_empty() { vec![lo] } else { marks };
    prop_oneof![
        4 => lo..=small_hi,
        3 => near_lo..=limit,
        2 => lo..=limit.min(64).max(lo),
        1 => lo..=limit,
        1 => proptest::sample::select(marks),
    ]
    .boxed()
}

pub fn arb_text(min: usize, limit: usize, alphas: &'static [u8]) -> BoxedStrategy<String> {
    (arb_len(min, limit), proptest::sample::select(alphas), vec(any::<u16>(), 1..24))
        .prop_map(|(len, alpha, seed)| build_string(len, alpha, &seed))
        .boxed()
}

const STABLE: &[u8] = &[0, 0, 1, 2, 3, 4, 5];
const ANY_TEXT: &[u8] = &[0, 0, 1, 2, 3, 4, 5, 6];

/// OpaqueString-stable, non-empty text that contains no leading/trailing/double spaces problems
/// (OpaqueString keeps ASCII spaces as they are).
pub fn arb_opaque(limit: usize) -> BoxedStrategy<String> {
    arb_text(1, limit, STABLE)
}

/// USERNAME: OpaqueString-stable text (majority) or one of the hand-verified mapped cases (labelled).
pub fn arb_username() -> BoxedStrategy<String> {
    prop_oneof![
        9 => arb_opaque(508),
        1 => (arb_text(1, 40, &[0, 1, 3]), 0usize..6).prop_map(|(s, k)| {
            let ins = ["\u{3000}", "\u{1680}", "e\u{301}", "a\u{300}", "\u{a0}", "o\u{308}"][k];
            // put the mapped sequence in the middle so it is never trimmed
            let mid = s.chars().count() / 2;
            let mut out: String = s.chars().take(mid).collect();
            out.push('x');
            out.push_str(ins);
            out.push('y');
            out.extend(s.chars().skip(mid));
            out
        }),
        // boundary: ASCII filler plus one mapped fragment (shrinking or growing under OpaqueString) so that the input
        // and the enforced form lie on different sides of the 508-byte limit, or both just inside
        1 => (0usize..MAPPED.len(), 498usize..=512, any::<u8>()).prop_map(|(k, raw_len, pos)| {
            let frag = MAPPED[k].0;
            let fill = raw_len.saturating_sub(frag.len()).max(2);
            let cut = 1 + (pos as usize * (fill - 1) >> 8);
            let mut out = String::with_capacity(raw_len);
            out.extend(std::iter::repeat('u').take(cut));
            out.push_str(frag);
            out.extend(std::iter::repeat('v').take(fill - cut));
            out
        }),
    ]
    .boxed()
}

/// One qdtext / quoted-pair unit for NONCE (realm = false) or REALM (realm = true).
fn qd_unit(realm: bool, r: u16) -> String {
    let k = r % 16;
    let v = r / 16;
    match k {
        0..=10 => {
            // qdtext ASCII: 0x21, 0x23-0x5B, 0x5D-0x7E
            let set: Vec<u8> = (0x21u8..=0x7E).filter(|c| *c != 0x22 && *c != 0x5C).collect();
            (set[(v as usize) % set.len()] as char).to_string()
        }
        11 => " ".to_string(),
        12 | 13 => {
            // quoted-pair with a printable ASCII character
            let c = 0x20u8 + (v % 0x5F) as u8;
            format!("\\{}", c as char)
        }
        14 => {
            // the parser's two-unit non-ASCII sequence: lead U+C0..U+DF, trail U+A1..U+BF (realm) / U+80..U+BF (nonce)
            let lead = char::from_u32(0xC0 + (v as u32 % 0x20)).unwrap();
            let trail = if realm && v / 0x400 == 3 {
                // a no-break space in second position is accepted by Realm::new (the profile is only checked, the text
                // is stored and encoded as given)
                '\u{a0}'
            } else if realm {
                let t = 0xA1 + ((v as u32 / 0x20) % 0x1F);
                // U+00AD (soft hyphen) is disallowed by OpaqueString
                // U+00B7 (middle dot) is a CONTEXTO code point, also disallowed on its own
                char::from_u32(if t == 0xAD { 0xAE } else if t == 0xB7 { 0xB8 } else { t }).unwrap()
            } else {
                char::from_u32(0x80 + ((v as u32 / 0x20) % 0x40)).unwrap()
            };
            format!("{}{}", lead, trail)
        }
        _ => {
            if realm {
                "~".to_string()
            } else {
                // quoted-pair with a control character, or raw linear white space (both allowed by the grammar for NONCE)
                match v % 10 {
                    7 => "\t".to_string(),
                    8 => "\r\n ".to_string(),
                    9 => "\r\n\t".to_string(),
                    k => {
                        let c = [0x01u8, 0x09, 0x0B, 0x0C, 0x0E, 0x1F, 0x7F][k as usize];
                        format!("\\{}", c as char)
                    }
                }
            }
        }
    }
}

/// NONCE / REALM text: units up to a byte budget, optional nonce-cookie prefix, optional surrounding
/// LWS / quotes (which the constructors are documented to trim).
pub fn arb_quoted(realm: bool) -> BoxedStrategy<String> {
    (
        arb_len(if realm { 1 } else { 0 }, 509),
        vec(any::<u16>(), 1..24),
        0u8..32, // cookie / wrapping selector
        0u8..4,  // feature bits
    )
        .prop_map(move |(len, seed, sel, bits)| {
            let mut s = String::new();
            if !realm && (sel & 3) == 1 && len >= 13 {
                // nonce cookie: "obMatJos2" + base64 of 3 feature bytes
                let b0: u8 = (bits & 1) << 7 | (bits & 2) << 5;
                s.push_str("obMatJos2");
                s.push_str(&b64(&[b0, 0, 0]));
            } else if !realm && (sel & 3) == 2 && len >= 9 {
                // the cookie header followed by something that is NOT a valid feature field
                // (padding characters, URL-safe alphabet, spaces, too short, a two-unit non-ASCII sequence)
                s.push_str("obMatJos2");
                let bad = ["f//=", "==8A", "AA-_", "A A ", "AAA", "", "\u{c3}\u{a9}zz", "AAA\u{c3}\u{a9}", "~~~~", "AAA="][seed[0] as usize % 10];
                if s.len() + bad.len() <= len {
                    s.push_str(bad);
                }
            }
            let mut i = 0usize;
            loop {
                let r = seed[i % seed.len()].wrapping_add((i / seed.len()) as u16 * 31);
                i += 1;
                let u = qd_unit(realm, r);
                if s.len() + u.len() > len {
                    break;
                }
                s.push_str(&u);
                if i > 2000 {
                    break;
                }
            }
            while s.len() < len {
                s.push('z');
            }
            // never end with an unescaped space or start with one unless wrapping is requested below
            let inner = s;
            match sel >> 2 {
                // the limit applies to the stored text, not to the quotes / white space the constructor strips
                1 => format!("\"{}\"", inner),
                2 => format!(" {} ", inner),
                // quoted-pair of a space as the very last unit
                3 if inner.len() + 2 <= 509 => format!("{}\\ ", inner),
                // longer runs of backslashes in front of what the constructor trims:
                // escaped backslash + escaped quote inside quotes; escaped backslash + escaped space + blank;
                // escaped backslash + closing quote; escaped backslash + blank
                4 if inner.len() + 6 <= 509 => format!("\"{}\\\\\\\"\"", inner),
                5 if inner.len() + 5 <= 509 => format!("{}\\\\\\  ", inner),
                6 if inner.len() + 4 <= 509 => format!("\"{}\\\\\"", inner),
                7 if inner.len() + 3 <= 509 => format!("{}\\\\ ", inner),
                _ => inner,
            }
        })
        .boxed()
}

pub fn b64(b: &[u8; 3]) -> String {
    const T: &[u8; 64] = b"ABCDEFGHIJKLMNOPQRSTUVWXYZabcdefghijklmnopqrstuvwxyz0123456789+/";
    let n = (b[0] as u32) << 16 | (b[1] as u32) << 8 | b[2] as u32;
    (0..4).map(|i| T[((n >> (18 - 6 * i)) & 63) as usize] as char).collect()
}

pub fn arb_port() -> BoxedStrategy<u16> {
    prop_oneof![Just(0u16), Just(1u16), Just(0xFFFFu16), Just(0x2112u16), any::<u16>(), any::<u16>()].boxed()
}

/// IPv6 addresses with structure a uniform generator never produces: IPv4-mapped, IPv4-compatible, NAT64,
/// loopback, unspecified, link-local, multicast, 6to4, and the magic cookie / zero patterns in the XOR-ed part.
pub fn special_v6(kind: u8, v4: [u8; 4], tail: [u8; 8]) -> [u8; 16] {
    let mut a = [0u8; 16];
    match kind % 12 {
        0 => {
            a[10] = 0xFF;
            a[11] = 0xFF;
            a[12..].copy_from_slice(&v4);
        }
        1 => a[12..].copy_from_slice(&v4),
        2 => {
            a[..4].copy_from_slice(&[0x00, 0x64, 0xff, 0x9b]);
            a[12..].copy_from_slice(&v4);
        }
        3 => a[15] = 1,
        4 => {}
        5 => {
            a[0] = 0xFE;
            a[1] = 0x80;
            a[8..].copy_from_slice(&tail);
        }
        6 => {
            a[0] = 0xFF;
            a[1] = 0x02;
            a[15] = 1;
        }
        7 => {
            a[0] = 0x20;
            a[1] = 0x02;
            a[2..6].copy_from_slice(&v4);
            a[8..].copy_from_slice(&tail);
        }
        8 => {
            // first four bytes equal to the magic cookie (XOR gives zero there)
            a[..4].copy_from_slice(&[0x21, 0x12, 0xA4, 0x42]);
            a[8..].copy_from_slice(&tail);
        }
        9 => {
            a[0] = 0x20;
            a[1] = 0x01;
            a[2] = 0x0d;
            a[3] = 0xb8;
            a[8..].copy_from_slice(&tail);
        }
        10 => {
            a[10] = 0xFF;
            a[11] = 0xFF;
            a[12..].copy_from_slice(&[0x21, 0x12, 0xA4, 0x42]);
        }
        _ => {
            a[..8].copy_from_slice(&tail);
            a[12..].copy_from_slice(&v4);
        }
    }
    a
}

pub fn special_v4(kind: u8) -> [u8; 4] {
    [[0, 0, 0, 0], [127, 0, 0, 1], [255, 255, 255, 255], [224, 0, 0, 1], [0x21, 0x12, 0xA4, 0x42], [10, 0, 0, 1], [192, 0, 2, 1], [169, 254, 1, 1]][kind as usize % 8]
}

pub fn arb_addr() -> BoxedStrategy<RAddr> {
    prop_oneof![
        4 => (any::<[u8; 4]>(), arb_port()).prop_map(|(ip, p)| RAddr::V4(ip, p)),
        4 => (any::<[u8; 16]>(), arb_port()).prop_map(|(ip, p)| RAddr::V6(ip, p)),
        3 => (any::<u8>(), any::<[u8; 4]>(), any::<[u8; 8]>(), arb_port()).prop_map(|(k, v4, t, p)| RAddr::V6(special_v6(k, v4, t), p)),
        1 => (any::<u8>(), arb_port()).prop_map(|(k, p)| RAddr::V4(special_v4(k), p)),
        1 => Just(RAddr::V4([0; 4], 0)),
        1 => Just(RAddr::V6([0xFF; 16], 0xFFFF)),
    ]
    .boxed()
}

pub fn arb_tid() -> BoxedStrategy<[u8; 12]> {
    prop_oneof![
        6 => any::<[u8; 12]>(),
        1 => Just([0u8; 12]),
        1 => Just([0xFFu8; 12]),
        2 => (0usize..12, any::<u8>()).prop_map(|(i, b)| {
            let mut t = [0u8; 12];
            t[i] = b | 1;
            t
        }),
    ]
    .boxed()
}

pub fn arb_method() -> BoxedStrategy<u16> {
    prop_oneof![
        3 => 0u16..=0xFFF,
        2 => proptest::sample::select(vec![0u16, 1, 2, 3, 4, 6, 7, 8, 9]),
        1 => proptest::sample::select(vec![0xFFFu16, 0x800, 0x080, 0x07F, 0x010, 0xF7F, 0x0EF]),
    ]
    .boxed()
}

pub fn arb_u32() -> BoxedStrategy<u32> {
    prop_oneof![Just(0u32), Just(1u32), Just(u32::MAX), Just(0x8000_0000u32), any::<u32>(), any::<u32>()].boxed()
}

pub fn arb_u64() -> BoxedStrategy<u64> {
    prop_oneof![Just(0u64), Just(1u64), Just(u64::MAX), Just(1u64 << 63), any::<u64>(), any::<u64>()].boxed()
}

pub fn arb_alg() -> BoxedStrategy<RAlg> {
    (
        prop_oneof![Just(0u16), Just(1u16), Just(2u16), Just(1u16), Just(2u16), any::<u16>()],
        prop_oneof![3 => Just(Vec::new()), 2 => vec(any::<u8>(), 1..=9)],
    )
        .prop_map(|(id, params)| RAlg { id, params })
        .boxed()
}

pub fn arb_bytes(max: usize) -> BoxedStrategy<Vec<u8>> {
    prop_oneof![
        5 => vec(any::<u8>(), 0..=9),
        3 => vec(any::<u8>(), 0..=64.min(max)),
        1 => vec(any::<u8>(), 0..=max),
    ]
    .boxed()
}

pub fn arb_error_code() -> BoxedStrategy<u16> {
    prop_oneof![
        4 => 300u16..=699,
        1 => proptest::sample::select(vec![300u16, 399, 400, 401, 420, 438, 499, 500, 599, 600, 699]),
    ]
    .boxed()
}

#[derive(Clone, Copy, Debug)]
pub struct GenOpts {
    pub max_attrs: usize,
    pub data_max: usize,
    pub padding_max: usize,
    pub raw: bool,
    pub tails: bool,
}

impl Default for GenOpts {
    fn default() -> Self {
        GenOpts {
            max_attrs: 12,
            data_max: 1500,
            padding_max: 2000,
            raw: false,
            tails: true,
        }
    }
}

/// One ordinary (non-verifiable) attribute of any of the 35 kinds (plus unknown types when `raw`).
pub fn arb_plain_attr(o: GenOpts) -> BoxedStrategy<RAttr> {
    let mut v: Vec<BoxedStrategy<RAttr>> = vec![
        arb_addr().prop_map(RAttr::MappedAddress).boxed(),
        arb_addr().prop_map(RAttr::AlternateServer).boxed(),
        arb_addr().prop_map(RAttr::OtherAddress).boxed(),
        arb_addr().prop_map(RAttr::ResponseOrigin).boxed(),
        arb_addr().prop_map(RAttr::XorMappedAddress).boxed(),
        arb_addr().prop_map(RAttr::XorPeerAddress).boxed(),
        arb_addr().prop_map(RAttr::XorRelayedAddress).boxed(),
        arb_username().prop_map(RAttr::UserName).boxed(),
        arb_quoted(true).prop_map(RAttr::Realm).boxed(),
        arb_quoted(false).prop_map(RAttr::Nonce).boxed(),
        arb_text(0, 509, ANY_TEXT).prop_map(RAttr::Software).boxed(),
        arb_text(0, o.padding_max, ANY_TEXT).prop_map(RAttr::Padding).boxed(),
        (arb_error_code(), arb_text(0, 509, ANY_TEXT))
            .prop_map(|(code, reason)| RAttr::ErrorCode { code, reason })
            .boxed(),
        vec(prop_oneof![any::<u16>(), 0u16..0x30, 0x8000u16..0x8031], 0..=8)
            .prop_map(|mut l| {
                let mut out = Vec::new();
                for t in l.drain(..) {
                    if !out.contains(&t) {
                        out.push(t);
                    }
                }
                RAttr::UnknownAttributes(out)
            })
            .boxed(),
        (arb_keytext(60), arb_keytext(60))
            .prop_map(|(user, realm)| RAttr::UserHash(UserHashSpec::Names { user, realm }))
            .boxed(),
        arb_alg().prop_map(RAttr::PasswordAlgorithm).boxed(),
        vec(arb_alg(), 0..=4).prop_map(RAttr::PasswordAlgorithms).boxed(),
        arb_u64().prop_map(RAttr::IceControlled).boxed(),
        arb_u64().prop_map(RAttr::IceControlling).boxed(),
        arb_u32().prop_map(RAttr::Priority).boxed(),
        Just(RAttr::UseCandidate).boxed(),
        prop_oneof![Just(0u16), Just(0x4000u16), Just(0x7FFFu16), Just(0xFFFFu16), any::<u16>()]
            .prop_map(RAttr::ChannelNumber)
            .boxed(),
        arb_u32().prop_map(RAttr::LifeTime).boxed(),
        arb_bytes(o.data_max).prop_map(RAttr::Data).boxed(),
        (1u8..=2).prop_map(RAttr::RequestedAddressFamily).boxed(),
        (1u8..=2).prop_map(RAttr::AdditionalAddressFamily).boxed(),
        any::<bool>().prop_map(RAttr::EvenPort).boxed(),
        Just(RAttr::DontFragment).boxed(),
        prop_oneof![Just(17u8), Just(0u8)].prop_map(RAttr::RequestedTransport).boxed(),
        any::<[u8; 8]>().prop_map(RAttr::ReservationToken).boxed(),
        ((1u8..=2), arb_error_code(), arb_text(0, 509, ANY_TEXT))
            .prop_map(|(family, code, reason)| RAttr::AddressErrorCode { family, code, reason })
            .boxed(),
        (
            prop_oneof![Just(0u8), Just(127u8), 0u8..=127],
            prop_oneof![Just(0u16), Just(511u16), Just(256u16), 0u16..=511],
            any::<[u8; 4]>(),
        )
            .prop_map(|(typ, code, data)| RAttr::Icmp { typ, code, data })
            .boxed(),
        arb_bytes(o.data_max).prop_map(RAttr::MobilityTicket).boxed(),
        (any::<bool>(), any::<bool>())
            .prop_map(|(ip, port)| RAttr::ChangeRequest { ip, port })
            .boxed(),
        arb_port().prop_map(RAttr::ResponsePort).boxed(),
    ];
    if o.raw {
        let unknown_type = any::<u16>().prop_map(|t| {
            let mut t = t;
            while is_known_type(t) {
                t = t.wrapping_add(0x101);
            }
            t
        });
        for _ in 0..3 {
            v.push(
                (unknown_type.clone(), arb_bytes(40))
                    .prop_map(|(typ, value)| RAttr::Raw { typ, value })
                    .boxed(),
            );
        }
    }
    proptest::strategy::Union::new(v).boxed()
}

/// (input fragment, OpaqueString-enforced form): non-ASCII spaces, decomposed sequences and NFC singletons.
pub const MAPPED: [(&str, &str); 14] = [
    ("\u{a0}", " "),
    ("\u{1680}", " "),
    ("\u{2003}", " "),
    ("\u{202f}", " "),
    ("\u{205f}", " "),
    ("\u{3000}", " "),
    ("e\u{301}", "\u{e9}"),
    ("a\u{300}", "\u{e0}"),
    ("o\u{308}", "\u{f6}"),
    ("n\u{303}", "\u{f1}"),
    ("A\u{30a}", "\u{c5}"),
    ("\u{212b}", "\u{c5}"),
    // composition exclusions: NFC leaves them decomposed, so the enforced form is LONGER than the input (3 -> 6 bytes)
    ("\u{958}", "\u{915}\u{93c}"),
    ("\u{95b}", "\u{91c}\u{93c}"),
];

/// Text for passwords / realms / user names of integrity keys: stable text, sometimes with one mapped fragment inside.
pub fn arb_keytext(limit: usize) -> BoxedStrategy<String> {
    prop_oneof![
        3 => arb_opaque(limit),
        1 => (arb_text(1, limit.min(24), &[0, 1, 3]), 0usize..MAPPED.len()).prop_map(|(s, k)| {
            let mid = s.chars().count() / 2;
            let mut out: String = s.chars().take(mid).collect();
            out.push('x');
            out.push_str(MAPPED[k].0);
            out.push('y');
            out.extend(s.chars().skip(mid));
            out
        }),
    ]
    .boxed()
}

/// Short-term passwords: also lengths around the HMAC block size (64 bytes) and beyond, where HMAC hashes the key.
pub fn arb_password() -> BoxedStrategy<String> {
    prop_oneof![
        4 => arb_keytext(40),
        2 => (proptest::sample::select(vec![55usize, 56, 63, 64, 65, 66, 100, 127, 128, 129, 200]), proptest::sample::select(vec![0u8, 1, 3]), proptest::collection::vec(any::<u16>(), 1..8))
            .prop_map(|(len, alpha, seed)| build_string(len, alpha, &seed)),
    ]
    .boxed()
}

pub fn arb_key() -> BoxedStrategy<KeySpec> {
    prop_oneof![
        arb_password().prop_map(KeySpec::ShortTerm),
        (arb_keytext(30), prop_oneof![arb_quoted_simple(), arb_keytext(30)], arb_keytext(30), 1u16..=2).prop_map(|(user, realm, password, alg)| {
            KeySpec::LongTerm {
                user,
                realm,
                password,
                alg,
            }
        }),
    ]
    .boxed()
}

/// REALM text that is both qdtext and OpaqueString-stable: ASCII qdtext characters (no quotes / backslashes).
pub fn arb_quoted_simple() -> BoxedStrategy<String> {
    (1usize..40, vec(any::<u16>(), 1..12))
        .prop_map(|(len, seed)| {
            let set: Vec<u8> = (0x21u8..=0x7E).filter(|c| *c != 0x22 && *c != 0x5C).collect();
            (0..len)
                .map(|i| set[(seed[i % seed.len()] as usize + i) % set.len()] as char)
                .collect::<String>()
        })
        .boxed()
}

/// One of the 7 legal tails (or none): {MI; SHA256; MI+SHA256} x {with, without FINGERPRINT} plus FINGERPRINT alone.
pub fn arb_tail() -> BoxedStrategy<Vec<RAttr>> {
    (0u8..8, arb_key())
        .prop_map(|(k, key)| tail_of(k, &key))
        .boxed()
}

pub fn tail_of(k: u8, key: &KeySpec) -> Vec<RAttr> {
    let mi = RAttr::Mi(MacSpec::Keyed {
        key: key.clone(),
        fault: Fault::Correct,
    });
    let sha = RAttr::MiSha256(MacSpec::Keyed {
        key: key.clone(),
        fault: Fault::Correct,
    });
    let fp = RAttr::Fp(FpSpec::Computed(Fault::Correct));
    match k {
        0 => vec![],
        1 => vec![mi],
        2 => vec![sha],
        3 => vec![mi, sha],
        4 => vec![mi, fp],
        5 => vec![sha, fp],
        6 => vec![mi, sha, fp],
        _ => vec![fp],
    }
}

pub fn tail_name(attrs: &[RAttr]) -> &'static str {
    let mi = attrs.iter().any(|a| matches!(a, RAttr::Mi(_)));
    let sha = attrs.iter().any(|a| matches!(a, RAttr::MiSha256(_)));
    let fp = attrs.iter().any(|a| matches!(a, RAttr::Fp(_)));
    match (mi, sha, fp) {
        (false, false, false) => "tail:none",
        (true, false, false) => "tail:MI",
        (false, true, false) => "tail:SHA256",
        (true, true, false) => "tail:MI+SHA256",
        (true, false, true) => "tail:MI+FP",
        (false, true, true) => "tail:SHA256+FP",
        (true, true, true) => "tail:MI+SHA256+FP",
        (false, false, true) => "tail:FP",
    }
}

pub fn arb_msg(o: GenOpts) -> BoxedStrategy<RMsg> {
    let tail = if o.tails { arb_tail() } else { Just(Vec::new()).boxed() };
    (
        arb_method(),
        0u8..4,
        arb_tid(),
        vec(arb_plain_attr(o), 0..=o.max_attrs),
        tail,
    )
        .prop_map(|(method, class, tid, mut attrs, tail)| {
            attrs.extend(tail);
            let mut m = RMsg {
                method,
                class,
                tid,
                attrs,
            };
            // keep the message inside the 16-bit length field (C14 explores the boundary itself)
            while attr_bytes(&m) > 65535 {
                let n = m.attrs.len();
                // drop the largest ordinary attribute
                let idx = (0..n)
                    .max_by_key(|i| {
                        ref_encode(
                            &RMsg {
                                method: 1,
                                class: 0,
                                tid: [0; 12],
                                attrs: vec![m.attrs[*i].clone()],
                            },
                            &mut Noise::zero(),
                        )
                        .bytes
                        .len()
                    })
                    .unwrap();
                m.attrs.remove(idx);
            }
            m
        })
        .boxed()
}

/// Every character the OpaqueString-stable alphabets (0-5) can produce must be left unchanged by the PRECIS
/// OpaqueString profile (checked against the `precis-profiles` crate, a trusted dependency).  A failure means
/// the harness's own alphabets are wrong: exit 2, never a violation.
pub fn alphabet_self_test() -> Result<(), String> {
    use precis_core::profile::PrecisFastInvocation;
    use precis_profiles::OpaqueString;
    let mut bad = Vec::new();
    for alpha in 0u8..=5 {
        let mut seen = std::collections::BTreeSet::new();
        for r in 0..=u16::MAX {
            let c = alpha_char(alpha, r);
            if !seen.insert(c) {
                continue;
            }
            let s = format!("a{}b", c);
            match OpaqueString::enforce(s.as_str()) {
                Ok(out) if out == s.as_str() => {}
                other => bad.push(format!("alpha {} U+{:04X}: {:?}", alpha, c as u32, other.map(|x| x.to_string()))),
            }
        }
    }
    for (input, want) in MAPPED.iter() {
        let s = format!("x{}y", input);
        let exp = format!("x{}y", want);
        match OpaqueString::enforce(s.as_str()) {
            Ok(out) if out == exp.as_str() && crate::refcodec::ref_opaque(&s) == exp => {}
            other => bad.push(format!("mapped {:?}: precis {:?}, ref_opaque {:?}, table {:?}", input, other.map(|x| x.to_string()), crate::refcodec::ref_opaque(&s), exp)),
        }
    }
    if bad.is_empty() {
        Ok(())
    } else {
        Err(format!("alphabet self-test: {} unstable characters, e.g. {:?}", bad.len(), &bad[..bad.len().min(8)]))
    }
}
