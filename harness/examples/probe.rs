use stun_rs::attributes::stun::{UserHash, UserName, Realm};
use stun_rs::{HMACKey, Algorithm, AlgorithmId};
fn main() {
    for s in ["x\u{3000}y", "xe\u{301}y", "x\u{a0}y", "plain"] {
        let u = UserName::new(s);
        println!("UserName::new({:?}) -> {:?}", s, u.as_ref().map(|x| x.as_str().to_string()));
        let h = UserHash::new(s, "realm").map(|h| rustun_verif::report::hex(h.hash()));
        let want_enforced = rustun_verif::report::hex(&rustun_verif::refcodec::user_hash_bytes(s, "realm"));
        let raw = rustun_verif::report::hex(&rustun_verif::refcrypto::sha256(format!("{}:realm", s).as_bytes()));
        println!("  UserHash lib {:?}\n  enforce-based {}\n  raw-based     {}", h, want_enforced, raw);
        let k = HMACKey::new_long_term(s, "realm", "pw", Algorithm::from(AlgorithmId::MD5)).map(|k| rustun_verif::report::hex(k.as_bytes()));
        let kraw = rustun_verif::report::hex(&rustun_verif::refcrypto::md5(format!("{}:realm:pw", s).as_bytes()));
        let kenf = rustun_verif::report::hex(&rustun_verif::refcrypto::md5(format!("{}:realm:pw", rustun_verif::refcodec::ref_opaque(s)).as_bytes()));
        println!("  key lib {:?}\n  key raw-user {}\n  key enforced-user {}", k, kraw, kenf);
        println!("  Realm::new -> {:?}", Realm::new(s).map(|r| r.as_str().to_string()));
    }
}
