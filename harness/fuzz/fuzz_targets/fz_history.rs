#![no_main]
//! Coverage-guided search over whole client histories (C05-C08, C10-C13, C17; C03 for panics): the bytes are decoded
//! into a configuration and up to 64 operations and run against the real client and the reference tracker with the
//! same judge as the generated checks.  VERIF_FOCUS names the property whose invariants may raise.
use libfuzzer_sys::fuzz_target;
use rustun_verif::fuzzgen;
use rustun_verif::report::{Ctx, Tier};
use std::sync::OnceLock;

static CTX: OnceLock<(Ctx, String, bool)> = OnceLock::new();

fuzz_target!(|data: &[u8]| {
    let (ctx, focus, drain) = CTX.get_or_init(|| {
        // libfuzzer-sys aborts on every panic; the harness needs to catch library panics itself (they are C03's
        // business and end a case of another property without a verdict), so its own recording hook replaces that one
        rustun_verif::report::install_panic_hook();
        let f = std::env::var("VERIF_FOCUS").unwrap_or_else(|_| "C05".to_string());
        let drain = !matches!(f.as_str(), "C10" | "C12" | "C13");
        (Ctx::new(&f, Tier::Thorough), f, drain)
    });
    if let Err(e) = fuzzgen::history_case(data, &[focus.as_str()], ctx, *drain) {
        if e.starts_with("HARNESS-") {
            eprintln!("HARNESS-FAILURE (not a violation): {}", e);
        } else {
            eprintln!("VIOLATION {}", e);
        }
        std::process::abort();
    }
});
