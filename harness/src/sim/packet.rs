//! C13 / C07 / C08 / C10: what a packet emitted by the client must look like.

use super::types::*;
use crate::conv;
use crate::refcodec::*;

/// Long-term session as seen by the harness (what the server last told the client and the client accepted).
#[derive(Clone, Debug, PartialEq, Eq)]
pub struct LtSess {
    pub realm: String,
    pub nonce: String,
    pub algs: Option<Vec<RAlg>>,
    pub anon: bool,
    /// algorithm the client announced in an earlier request of this session (if any)
    pub chosen: Option<u16>,
}

#[derive(Clone, Copy, Debug, PartialEq, Eq)]
pub enum LtState {
    First,
    Retry401,
    Retry438,
    Subsequent,
}

/// Credential view used to predict the decoration of the next request.
#[derive(Clone, Debug)]
pub enum CredView {
    None,
    ShortTerm { agreed: Option<bool> },
    LongTerm { state: LtState, sess: Option<LtSess> },
}

#[derive(Clone, Debug)]
pub struct Finding {
    /// property ids this invariant belongs to
    pub tags: &'static [&'static str],
    pub msg: String,
    /// signature of a recorded known finding this deviation corresponds to (if any)
    pub known: Option<&'static str>,
    /// a pure observation through the hooks: the tracker stays valid, so a check for another property goes on
    pub soft: bool,
}

pub fn finding(tags: &'static [&'static str], msg: String) -> Finding {
    Finding { tags, msg, known: None, soft: false }
}

const LT_OWNED: [u16; 6] = [T_USERNAME, T_USERHASH, T_REALM, T_NONCE, T_PASSWORD_ALGORITHM, T_PASSWORD_ALGORITHMS];

/// The algorithm that keys a long-term session, when the harness can know it: announced in this packet, announced
/// earlier in the session, or forced because the offer contains at most one supported algorithm.
pub fn key_alg_certain(s: &LtSess, announced_now: Option<u16>) -> Option<u16> {
    if let Some(a) = announced_now.or(s.chosen) {
        return Some(a);
    }
    match &s.algs {
        None => Some(1),
        Some(l) => {
            let md5 = l.iter().any(|a| a.id == 1);
            let sha = l.iter().any(|a| a.id == 2);
            match (md5, sha) {
                (true, false) => Some(1),
                (false, true) => Some(2),
                _ => None,
            }
        }
    }
}

/// Application attribute list -> what StunAttributes::add keeps (one per type, first-insertion position,
/// last value; integrity/fingerprint kept apart).  Values are the constructor-normalised ones.
pub fn app_model(attrs: &[RAttr]) -> (Vec<RAttr>, Option<RAttr>, Option<RAttr>, Option<RAttr>) {
    let mut plain: Vec<RAttr> = Vec::new();
    let (mut mi, mut sha, mut fp) = (None, None, None);
    for a in attrs {
        let Ok(lib) = conv::to_lib_app(a) else { continue };
        match a {
            RAttr::Mi(_) => mi = Some(a.clone()),
            RAttr::MiSha256(_) => sha = Some(a.clone()),
            RAttr::Fp(_) => fp = Some(a.clone()),
            _ => {
                let norm = match conv::from_lib(&lib) {
                    // keep the logical form for values whose accessor form differs (USERHASH)
                    RAttr::UserHash(x) => RAttr::UserHash(x),
                    x => x,
                };
                if let Some(i) = plain.iter().position(|p| p.type_code() == norm.type_code()) {
                    plain[i] = norm;
                } else {
                    plain.push(norm);
                }
            }
        }
    }
    (plain, mi, sha, fp)
}

pub struct PacketInfo {
    pub tid: [u8; 12],
    pub wire: RWire,
    /// (kind is sha256, verifies under the expected key) for each integrity attribute present
    pub has_mi: bool,
    pub has_sha: bool,
    pub chosen_alg: Option<u16>,
}

/// Check one freshly emitted packet.  `expect_class` 0 request / 1 indication.
#[allow(clippy::too_many_arguments)]
pub fn check_packet(
    bytes: &[u8],
    cfg: &ClientCfg,
    cred: &CredView,
    method: u16,
    expect_class: u8,
    app: &[RAttr],
    out: &mut Vec<Finding>,
) -> Option<PacketInfo> {
    let wire = match ref_decode(bytes) {
        Ok(w) if w.total == bytes.len() => w,
        other => {
            out.push(finding(&["C13"], format!("emitted packet is not a well-formed STUN message: {:?}", other.err())));
            return None;
        }
    };
    if wire.class != expect_class || wire.method != method {
        out.push(finding(
            &["C13"],
            format!("packet is ({:#x}, class {}), asked for ({:#x}, class {})", wire.method, wire.class, method, expect_class),
        ));
    }
    let mut parsed: Vec<RAttr> = Vec::new();
    for a in &wire.attrs {
        match parse_attr(a, &wire.tid) {
            Ok(p) => parsed.push(p),
            Err(e) => {
                out.push(finding(&["C13"], format!("attribute {:#06x} of emitted packet does not parse: {:?}", a.typ, e)));
                return None;
            }
        }
    }
    let (mut plain, app_mi, app_sha, app_fp) = app_model(app);
    // index in `plain` where the mechanism's own attributes start (set below once the application part is final)
    let mut cred_start: Option<usize> = None;
    let mut exp_mi: Option<Vec<u8>> = None; // key bytes the MI must verify under
    let mut exp_sha: Option<Vec<u8>> = None;
    let mut chosen_alg = None;
    let mut skip_mac_check = false;
    match cred {
        CredView::None => {
            if let Some(RAttr::Mi(MacSpec::Keyed { key, .. })) = &app_mi {
                exp_mi = Some(key.key_bytes());
            }
            if let Some(RAttr::MiSha256(MacSpec::Keyed { key, .. })) = &app_sha {
                exp_sha = Some(key.key_bytes());
            }
        }
        CredView::ShortTerm { agreed } => {
            plain.retain(|a| a.type_code() != T_USERNAME);
            cred_start = Some(plain.len());
            plain.push(RAttr::UserName(ref_opaque(&cfg.user)));
            let key = KeySpec::ShortTerm(cfg.password.clone()).key_bytes();
            match agreed {
                None => {
                    exp_mi = Some(key.clone());
                    exp_sha = Some(key);
                }
                Some(false) => exp_mi = Some(key),
                Some(true) => exp_sha = Some(key),
            }
        }
        CredView::LongTerm { state, sess } => {
            plain.retain(|a| !LT_OWNED.contains(&a.type_code()));
            cred_start = Some(plain.len());
            if let (Some(s), true) = (sess, *state != LtState::First) {
                if s.anon {
                    plain.push(RAttr::UserHash(UserHashSpec::Bytes(user_hash_bytes(&cfg.user, &s.realm).to_vec())));
                } else {
                    plain.push(RAttr::UserName(ref_opaque(&cfg.user)));
                }
                plain.push(RAttr::Realm(s.realm.clone()));
                plain.push(RAttr::Nonce(s.nonce.clone()));
                // which algorithm did the client choose?  read it from the packet, it must be an offered, supported one
                if let Some(list) = &s.algs {
                    let mut chosen_pa: Option<RAlg> = None;
                    if let Some(RAttr::PasswordAlgorithm(pa)) = parsed.iter().find(|a| matches!(a, RAttr::PasswordAlgorithm(_))) {
                        chosen_alg = Some(pa.id);
                        chosen_pa = Some(pa.clone());
                        if !list.contains(pa) || !(pa.id == 1 || pa.id == 2) {
                            out.push(finding(
                                &["C08"],
                                format!("PASSWORD-ALGORITHM {:?} is not a supported algorithm from the offered list {:?}", pa, list),
                            ));
                        }
                    }
                    if *state == LtState::Retry438 && chosen_alg.is_none() {
                        // recorded deviation F8: no PASSWORD-ALGORITHM(S) in the retry after 438
                        out.push(Finding {
                            tags: &["C08"],
                            msg: "retry after 438 carries no PASSWORD-ALGORITHMS / PASSWORD-ALGORITHM although algorithms were offered".into(),
                            known: Some("lt-retry-after-438-without-password-algorithms"),
                            soft: false,
                        });
                    } else {
                        plain.push(RAttr::PasswordAlgorithms(list.clone()));
                        match chosen_pa {
                            Some(pa) => plain.push(RAttr::PasswordAlgorithm(pa)),
                            None => out.push(finding(&["C08"], "no PASSWORD-ALGORITHM although the server offered algorithms".into())),
                        }
                    }
                }
                // which algorithm keys this session?  the one the client announced; without an announcement it is only
                // determined when the offer leaves no choice (the property does not fix the preference among offered ones)
                let certain = key_alg_certain(s, chosen_alg);
                let alg_for_key = certain.unwrap_or(1);
                let key = KeySpec::LongTerm {
                    user: ref_opaque(&cfg.user),
                    realm: s.realm.clone(),
                    password: cfg.password.clone(),
                    alg: alg_for_key,
                }
                .key_bytes();
                let has_any_integrity = parsed.iter().any(|a| matches!(a, RAttr::Mi(_) | RAttr::MiSha256(_)));
                if *state == LtState::Retry401 && !has_any_integrity {
                    // recorded deviation F7: no integrity attribute in the retry after 401
                    out.push(Finding {
                        tags: &["C08"],
                        msg: "retry after the 401 challenge carries no MESSAGE-INTEGRITY(-SHA256); an RFC 8489 9.2.4 server answers 401 again".into(),
                        known: Some("lt-retry-after-401-without-integrity"),
                        soft: false,
                    });
                } else if s.algs.is_some() {
                    exp_sha = Some(if certain.is_some() { key } else { Vec::new() });
                    skip_mac_check = certain.is_none();
                } else {
                    exp_mi = Some(key);
                }
            }
        }
    }
    let exp_fp = cfg.fingerprint || app_fp.is_some();
    // compare the ordinary part
    let n_tail = parsed
        .iter()
        .rev()
        .take_while(|a| matches!(a, RAttr::Mi(_) | RAttr::MiSha256(_) | RAttr::Fp(_)))
        .count();
    let body = &parsed[..parsed.len() - n_tail];
    let tail = &parsed[parsed.len() - n_tail..];
    if body.iter().any(|a| matches!(a, RAttr::Mi(_) | RAttr::MiSha256(_) | RAttr::Fp(_))) {
        out.push(finding(&["C13"], "integrity / fingerprint attribute is not among the final attributes".into()));
    }
    let norm = |a: &RAttr| -> RAttr {
        match a {
            RAttr::UserHash(UserHashSpec::Names { user, realm }) => RAttr::UserHash(UserHashSpec::Bytes(user_hash_bytes(user, realm).to_vec())),
            RAttr::UserName(s) => RAttr::UserName(ref_opaque(s)),
            x => x.clone(),
        }
    };
    let exp_body: Vec<RAttr> = plain.iter().map(norm).collect();
    let got_body: Vec<RAttr> = body.iter().map(norm).collect();
    // the application part is ordered; the property does not fix the order among the mechanism's own attributes
    let same = match cred_start {
        Some(k) if got_body.len() == exp_body.len() && k <= exp_body.len() => {
            let mut a: Vec<String> = got_body[k..].iter().map(|x| format!("{:?}", x)).collect();
            let mut b: Vec<String> = exp_body[k..].iter().map(|x| format!("{:?}", x)).collect();
            a.sort();
            b.sort();
            got_body[..k] == exp_body[..k] && a == b
        }
        _ => exp_body == got_body,
    };
    if !same {
        let tags: &'static [&'static str] = match cred {
            CredView::None => &["C13"],
            CredView::ShortTerm { .. } => &["C13", "C07"],
            CredView::LongTerm { .. } => &["C13", "C08"],
        };
        out.push(finding(
            tags,
            format!(
                "packet attributes {:?} differ from expected {:?}",
                got_body.iter().map(|a| a.kind_name()).collect::<Vec<_>>(),
                exp_body.iter().map(|a| a.kind_name()).collect::<Vec<_>>()
            ) + &first_diff(&got_body, &exp_body),
        ));
    }
    // tail: at most one of each, in order MI, SHA256, FP
    let order: Vec<u8> = tail
        .iter()
        .map(|a| match a {
            RAttr::Mi(_) => 0,
            RAttr::MiSha256(_) => 1,
            _ => 2,
        })
        .collect();
    if order.windows(2).any(|w| w[0] >= w[1]) {
        out.push(finding(&["C13"], format!("final attributes out of order or duplicated: {:?}", order)));
    }
    let has_mi = order.contains(&0);
    let has_sha = order.contains(&1);
    let has_fp = order.contains(&2);
    let mech_tags: &'static [&'static str] = match cred {
        CredView::None => &["C13"],
        CredView::ShortTerm { .. } => &["C13", "C07"],
        CredView::LongTerm { .. } => &["C13", "C08"],
    };
    let base = parsed.len() - n_tail;
    for (j, a) in tail.iter().enumerate() {
        let wa = &wire.attrs[base + j];
        match a {
            RAttr::Mi(_) => match &exp_mi {
                Some(k) => {
                    if !verify_at(bytes, wa, k) {
                        out.push(finding(mech_tags, "MESSAGE-INTEGRITY does not verify under the configured credentials (reference HMAC-SHA1)".into()));
                    }
                }
                None => out.push(finding(mech_tags, "unexpected MESSAGE-INTEGRITY in emitted packet".into())),
            },
            RAttr::MiSha256(_) => match &exp_sha {
                Some(k) => {
                    if !skip_mac_check && !verify_at(bytes, wa, k) {
                        out.push(finding(mech_tags, "MESSAGE-INTEGRITY-SHA256 does not verify under the configured credentials (reference HMAC-SHA256)".into()));
                    }
                }
                None => out.push(finding(mech_tags, "unexpected MESSAGE-INTEGRITY-SHA256 in emitted packet".into())),
            },
            _ => {
                if !verify_at(bytes, wa, &[]) {
                    out.push(finding(&["C13", "C10"], "FINGERPRINT of emitted packet does not verify (reference CRC-32)".into()));
                }
                if !exp_fp {
                    out.push(finding(&["C13"], "unexpected FINGERPRINT in emitted packet".into()));
                }
            }
        }
    }
    if exp_mi.is_some() && !has_mi {
        out.push(finding(mech_tags, "MESSAGE-INTEGRITY missing from emitted packet".into()));
    }
    if exp_sha.is_some() && !has_sha {
        out.push(finding(mech_tags, "MESSAGE-INTEGRITY-SHA256 missing from emitted packet".into()));
    }
    if exp_fp && !has_fp {
        out.push(finding(&["C13", "C10"], "FINGERPRINT missing (or not last) in a packet of a fingerprint-configured client".into()));
    }
    // the password never appears on the wire (C08 / C07)
    if !matches!(cred, CredView::None) && cfg.password.len() >= 6 {
        let pw = cfg.password.as_bytes();
        // an application attribute may itself contain the same text: that is the application's doing
        let app_bytes = ref_encode(
            &RMsg {
                method: 0,
                class: 0,
                tid: [0; 12],
                attrs: app.iter().filter(|a| crate::conv::to_lib_app(a).is_ok()).cloned().collect(),
            },
            &mut Noise::zero(),
        )
        .bytes;
        let in_app = app_bytes.windows(pw.len()).any(|w| w == pw) || cfg.user.contains(cfg.password.as_str());
        if !in_app && bytes.windows(pw.len()).any(|w| w == pw) {
            out.push(finding(&["C08", "C07"], "the password appears in an emitted packet".into()));
        }
    }
    Some(PacketInfo {
        tid: wire.tid,
        wire,
        has_mi,
        has_sha,
        chosen_alg,
    })
}

fn first_diff(got: &[RAttr], exp: &[RAttr]) -> String {
    for i in 0..got.len().max(exp.len()) {
        if got.get(i) != exp.get(i) {
            return format!(
                "; first difference at {}: got {} expected {}",
                i,
                crate::report::truncate(&format!("{:?}", got.get(i)), 160),
                crate::report::truncate(&format!("{:?}", exp.get(i)), 160)
            );
        }
    }
    String::new()
}
