//! C19 — value types never panic and clones are independent.

use crate::conv;
use crate::gen::*;
use crate::refcodec::*;
use crate::report::*;
use enumflags2::BitFlags;
use proptest::prelude::*;
use serde::{Deserialize, Serialize};
use serde_json::{json, Value};
use std::convert::TryFrom;
use stun_agent::StunAttributes;
use stun_rs::attributes::stun::nonce_cookie::StunSecurityFeatures;
use stun_rs::attributes::stun::*;
use stun_rs::attributes::turn::{IcmpCode, IcmpType};
use stun_rs::{
    AddressFamily, Algorithm, AlgorithmId, AttributeType, HMACKey, MessageClass, MessageMethod, MessageType,
    StunAttribute, TransactionId,
};

pub const RULE: &str = "exhaustive: every u16 through MessageType::from / MessageMethod::try_from / AlgorithmId::from / AttributeType / \
ErrorCode::new+class+number / IcmpCode::new, every u8 through MessageClass / AddressFamily / IcmpType; generated: arbitrary Unicode strings \
(ASCII incl. controls, Latin-1, combining marks, format characters, CJK, astral; lengths 0-20 and around 508/509/763) through every string \
constructor and key constructor with all accessors read back; nonce cookies with a multi-byte character at each byte offset 5..=16; every \
generated attribute of the 38 kinds through all as_*/is_* accessors and expect_* on the matching variant; call sequences build -> clone -> \
mutate either copy -> read both on PasswordAlgorithms, UnknownAttributes and the agent's StunAttributes against a Vec model; \
non-trivial = a non-ASCII argument, or a sequence with a mutation after a clone; distinct = hash of the argument / sequence";

#[derive(Clone, Debug, Hash, Serialize, Deserialize)]
pub struct Range16 {
    pub lo: u32,
    pub hi: u32,
}

/// IANA STUN methods registry (RFC 8489 18.2, RFC 8656 18.1) against the library's named constants.
pub fn check_method_constants() -> Result<(), String> {
    use stun_rs::methods::*;
    let table: [(&str, MessageMethod, u16); 9] = [
        ("RESERVED", RESERVED, 0x000),
        ("BINDING", BINDING, 0x001),
        ("SHARED_SECRET", SHARED_SECRET, 0x002),
        ("ALLOCATE", ALLOCATE, 0x003),
        ("REFRESH", REFRESH, 0x004),
        ("SEND", SEND, 0x006),
        ("DATA", DATA, 0x007),
        ("CREATE_PERMMISSION", CREATE_PERMMISSION, 0x008),
        ("CHANNEL_BIND", CHANNEL_BIND, 0x009),
    ];
    for (name, m, v) in table {
        if m.as_u16() != v {
            return Err(format!("methods::{} is {:#05x}, the registry says {:#05x}", name, m.as_u16(), v));
        }
    }
    Ok(())
}

pub fn check_u16_range(r: &Range16, st: &mut Stats) -> Result<(), String> {
    if r.lo == 0 {
        check_method_constants()?;
    }
    for v in r.lo..=r.hi {
        let v = v as u16;
        st.evaluations += 1;
        let mt = MessageType::from(v);
        if mt.as_u16() != v & 0x3FFF {
            return Err(format!("MessageType::from({:#06x}).as_u16() = {:#06x}", v, mt.as_u16()));
        }
        let (m, c) = split_msg_type(v);
        if mt.method().as_u16() != m || conv::class_num(mt.class()) != c {
            return Err(format!("MessageType::from({:#06x}) = ({:#x},{:?})", v, mt.method().as_u16(), mt.class()));
        }
        let bytes = v.to_be_bytes();
        let _ = MessageType::from(&bytes);
        match MessageMethod::try_from(v) {
            Ok(mm) => {
                if v > 0xFFF || mm.as_u16() != v {
                    return Err(format!("MessageMethod::try_from({:#x}) accepted", v));
                }
                let _ = mm.is_valid();
                for cl in 0u8..4 {
                    let t = MessageType::new(mm, conv::class_of(cl));
                    if t.as_u16() != msg_type(v, cl) {
                        return Err(format!("MessageType::new({:#x},{}) = {:#06x}", v, cl, t.as_u16()));
                    }
                }
            }
            Err(_) => {
                if v <= 0xFFF {
                    return Err(format!("MessageMethod::try_from({:#x}) refused", v));
                }
            }
        }
        let id = AlgorithmId::from(v);
        if u16::from(id) != v {
            return Err(format!("AlgorithmId::from({}) round trip gives {}", v, u16::from(id)));
        }
        let _ = format!("{}", id);
        let alg = Algorithm::from(id);
        let _ = (alg.algorithm(), alg.parameters());
        let at = AttributeType::from(v);
        if at.as_u16() != v || u16::from(at) != v || at.is_comprehension_required() == at.is_comprehension_optional() {
            return Err(format!("AttributeType({:#06x}) accessors inconsistent", v));
        }
        if at.is_comprehension_required() != (v < 0x8000) {
            return Err(format!("AttributeType({:#06x}).is_comprehension_required() wrong", v));
        }
        let _ = format!("{} {:?}", at, at);
        match stun_rs::ErrorCode::new(v, "r") {
            Ok(e) => {
                if !(300..=699).contains(&v) {
                    return Err(format!("ErrorCode::new({}) accepted", v));
                }
                if e.class() as u16 * 100 + e.number() as u16 != v || e.error_code() != v || e.reason() != "r" {
                    return Err(format!("ErrorCode({}) class/number = {}/{}", v, e.class(), e.number()));
                }
            }
            Err(_) => {
                if (300..=699).contains(&v) {
                    return Err(format!("ErrorCode::new({}) refused", v));
                }
            }
        }
        if IcmpCode::new(v).is_some() != (v <= 511) {
            return Err(format!("IcmpCode::new({}) wrong", v));
        }
        if v <= 0xFF {
            let b = v as u8;
            if MessageClass::try_from(b).is_ok() != (b <= 3) {
                return Err(format!("MessageClass::try_from({}) wrong", b));
            }
            if AddressFamily::try_from(b).is_ok() != (b == 1 || b == 2) {
                return Err(format!("AddressFamily::try_from({}) wrong", b));
            }
            if IcmpType::new(b).is_some() != (b <= 127) {
                return Err(format!("IcmpType::new({}) wrong", b));
            }
            let f = Fingerprint::from([b, !b, b ^ 0x55, 0]);
            let _ = f.validate(&[b; 20]);
            let mi = MessageIntegrity::from([b; 20]);
            let sha = MessageIntegritySha256::from([b; 32]);
            if let Ok(k) = HMACKey::new_short_term("k") {
                let _ = (mi.validate(&[b; 24], &k), sha.validate(&[b; 24], &k));
            }
            let bits = BitFlags::<StunSecurityFeatures>::from_bits_truncate((b as u32) << 24);
            let n = Nonce::new_nonce_cookie("x", Some(bits)).map_err(|e| format!("new_nonce_cookie refused: {}", e))?;
            let got = n.security_features().map_err(|e| format!("security_features of own cookie failed: {}", e))?;
            if got != bits || !n.is_nonce_cookie() {
                return Err(format!("nonce cookie flags {:?} read back as {:?}", bits, got));
            }
        }
    }
    st.nontrivial(r);
    Ok(())
}

#[derive(Clone, Debug, Hash, Serialize, Deserialize)]
pub struct StrCase {
    pub s: String,
    pub t: String,
    pub code: u16,
}

fn arb_char() -> BoxedStrategy<char> {
    prop_oneof![
        6 => (0x20u32..0x7F).prop_map(|c| char::from_u32(c).unwrap()),
        2 => (0x00u32..0x20).prop_map(|c| char::from_u32(c).unwrap()),
        2 => proptest::sample::select(vec!['"', '\\', ' ', '\t', '\r', '\n', ':', '\u{7f}']),
        3 => (0x80u32..0x100).prop_map(|c| char::from_u32(c).unwrap()),
        2 => (0x300u32..0x370).prop_map(|c| char::from_u32(c).unwrap()),
        2 => proptest::sample::select(vec!['\u{ad}', '\u{200b}', '\u{200d}', '\u{3000}', '\u{1680}', '\u{feff}', '\u{fffd}', '\u{e000}', '\u{2028}', '\u{b7}', '\u{1f641}', '\u{958}', '\u{95b}', '\u{344}', '\u{fb1d}', '\u{2adc}', '\u{212b}']),
        3 => (0x100u32..0xD800).prop_map(|c| char::from_u32(c).unwrap_or('x')),
        1 => (0xE000u32..0x10000).prop_map(|c| char::from_u32(c).unwrap_or('x')),
        2 => (0x10000u32..0x110000).prop_map(|c| char::from_u32(c).unwrap_or('x')),
    ]
    .boxed()
}

fn arb_string() -> BoxedStrategy<String> {
    prop_oneof![
        6 => proptest::collection::vec(arb_char(), 0..20).prop_map(|v| v.into_iter().collect::<String>()),
        2 => (proptest::collection::vec(arb_char(), 1..6), proptest::sample::select(vec![505usize, 507, 508, 509, 510, 511, 512, 762, 763, 764, 766, 1020]))
            .prop_map(|(unit, target)| {
                let mut s = String::new();
                let mut i = 0;
                while s.len() < target {
                    let c = unit[i % unit.len()];
                    if s.len() + c.len_utf8() > target {
                        s.push('a');
                    } else {
                        s.push(c);
                    }
                    i += 1;
                }
                s
            }),
        1 => arb_quoted(false),
        1 => arb_quoted(true),
    ]
    .boxed()
}

pub fn check_strings(c: &StrCase, st: &mut Stats) -> Result<(), String> {
    let s = c.s.as_str();
    let t = c.t.as_str();
    if !s.is_ascii() || !t.is_ascii() {
        st.nontrivial(c);
        st.class("arg:non-ascii");
    } else {
        st.class("arg:ascii");
    }
    st.class(&format!("len-bucket:{}", match s.len() { 0 => "0", 1..=20 => "1-20", 21..=504 => "21-504", 505..=512 => "505-512", _ => ">512" }));
    // plain string attributes: only a byte-length limit is documented
    match Software::new(s) {
        Ok(a) => {
            if s.len() > 509 {
                return Err(format!("Software::new accepted {} bytes", s.len()));
            }
            if a.as_str() != s {
                return Err("Software::as_str differs".into());
            }
            let _ = (a == s, a.clone(), format!("{:?}", a));
        }
        Err(_) => {
            if s.len() <= 509 {
                return Err(format!("Software::new refused {} bytes", s.len()));
            }
        }
    }
    let _ = Software::try_from(s).is_ok();
    let _ = stun_rs::attributes::discovery::Padding::new(s).map(|p| p.as_str().len());
    if let Ok(u) = UserName::new(s) {
        let _ = (u.as_str().len(), u == s, u == t, format!("{:?}", u));
        if u.as_str().len() >= 509 {
            return Err(format!("UserName::new accepted {} bytes", u.as_str().len()));
        }
    }
    let _ = UserName::try_from(s).is_ok();
    if let Ok(r) = Realm::new(s) {
        let _ = (r.as_str().len(), r == s, r == t, format!("{:?}", r));
        if r.as_str().len() > 509 {
            return Err(format!("Realm::new accepted {} bytes", r.as_str().len()));
        }
    }
    if let Ok(n) = Nonce::new(s) {
        let cookie = n.is_nonce_cookie();
        let f = n.security_features();
        if !cookie && f.is_ok() {
            return Err("security_features() succeeded on a nonce that is not a nonce cookie".into());
        }
        let _ = (n.as_str().len(), n == s, format!("{:?}", n));
        if n.as_str().len() > 509 {
            return Err(format!("Nonce::new accepted {} bytes", n.as_str().len()));
        }
    }
    if let Ok(n) = Nonce::new_nonce_cookie(s, None) {
        let _ = (n.is_nonce_cookie(), n.security_features().is_ok());
    }
    let _ = HMACKey::new_short_term(s).map(|k| (k.as_bytes().len(), k.credential_mechanism()));
    for alg in [
        AlgorithmId::MD5,
        AlgorithmId::SHA256,
        AlgorithmId::Reserved,
        AlgorithmId::Unassigned(c.code),
        // the public variant can also spell the assigned numbers: no panic, whatever the constructor decides
        AlgorithmId::Unassigned(0),
        AlgorithmId::Unassigned(1),
        AlgorithmId::Unassigned(2),
    ] {
        let r = HMACKey::new_long_term(s, t, s, Algorithm::from(alg));
        if matches!(alg, AlgorithmId::Reserved | AlgorithmId::Unassigned(3..)) && c.code > 2 && r.is_ok() {
            return Err(format!("HMACKey::new_long_term accepted algorithm {:?}", alg));
        }
        let _ = r.map(|k| (k.as_bytes().len(), k.credential_mechanism().is_long_term()));
    }
    let _ = UserHash::new(s, t).map(|h| h.hash().len());
    match stun_rs::ErrorCode::new(c.code, s) {
        Ok(e) => {
            let _ = (e.class(), e.number(), e.reason().len(), e.error_code());
            let a = ErrorCode::new(e.clone());
            let _ = a.error_code().reason();
            let _ = stun_rs::attributes::turn::AddressErrorCode::new(AddressFamily::IPv6, e);
        }
        Err(_) => {
            // a refusal is only wrong for a valid code with a reason phrase inside the documented limit (509 bytes on the
            // wire); what the constructor does with longer phrases is its own business as long as it returns
            if (300..=699).contains(&c.code) && s.len() <= 509 {
                return Err(format!("ErrorCode::new({}) refused a {}-byte reason phrase", c.code, s.len()));
            }
        }
    }
    Ok(())
}

#[derive(Clone, Debug, Hash, Serialize, Deserialize)]
pub struct CookieCase {
    pub prefix_len: u8,
    pub ch: u32,
    pub tail: String,
    pub cookie: bool,
}

/// Nonce values with a multi-byte character placed so that it straddles each byte offset around the cookie
/// header / flags boundary.  Only values the constructor accepts are used.
pub fn check_cookie(c: &CookieCase, st: &mut Stats) -> Result<(), String> {
    let lead = char::from_u32(0xC0 + c.ch % 0x3E).unwrap_or('\u{c3}');
    let trail = char::from_u32(0x80 + (c.ch / 0x40) % 0x40).unwrap_or('\u{a9}');
    let head = if c.cookie { "obMatJos2AAAAzzzzzzzz" } else { "obMatJos3AAAAzzzzzzzz" };
    let p = (c.prefix_len as usize % 17).min(head.len());
    let value = format!("{}{}{}{}", &head[..p], lead, trail, c.tail);
    st.class(&format!("multibyte-at-byte:{}", p));
    let Ok(n) = Nonce::new(value.as_str()) else {
        st.class("rejected-by-constructor");
        return Ok(());
    };
    st.nontrivial(c);
    let cookie = n.is_nonce_cookie();
    let f = n.security_features();
    st.class(match (&f, cookie) {
        (Ok(_), _) => "features:ok",
        (Err(_), true) => "features:err-on-cookie",
        (Err(_), false) => "features:err-not-cookie",
    });
    Ok(())
}

fn arb_cookie() -> BoxedStrategy<CookieCase> {
    (0u8..17, any::<u32>(), arb_text(0, 12, &[0]), prop_oneof![4 => Just(true), 1 => Just(false)])
        .prop_map(|(prefix_len, ch, tail, cookie)| CookieCase {
            prefix_len,
            ch,
            tail: tail.replace(['"', '\\'], "q"),
            cookie,
        })
        .boxed()
}

macro_rules! accessor_table {
    ($a:expr, $( ($as_fn:ident, $is_fn:ident, $expect_fn:ident) ),* $(,)?) => {{
        let a: &StunAttribute = $a;
        let mut matched = 0usize;
        $(
            let is = a.$is_fn();
            let r = a.$as_fn();
            if is != r.is_ok() {
                return Err(format!("{} and {} disagree", stringify!($is_fn), stringify!($as_fn)));
            }
            if is {
                matched += 1;
                // expect_* is documented to panic only on a mismatch
                let _ = a.$expect_fn();
            }
        )*
        matched
    }};
}

pub fn check_attr(a: &RAttr, st: &mut Stats) -> Result<(), String> {
    let Ok(lib) = conv::to_lib(a) else {
        st.class("rejected-by-constructor");
        return Ok(());
    };
    st.class(&format!("kind:{}", a.kind_name()));
    let matched = accessor_table!(
        &lib,
        (as_unknown, is_unknown, expect_unknown),
        (as_alternate_server, is_alternate_server, expect_alternate_server),
        (as_error_code, is_error_code, expect_error_code),
        (as_fingerprint, is_fingerprint, expect_fingerprint),
        (as_mapped_address, is_mapped_address, expect_mapped_address),
        (as_message_integrity, is_message_integrity, expect_message_integrity),
        (as_message_integrity_sha256, is_message_integrity_sha256, expect_message_integrity_sha256),
        (as_nonce, is_nonce, expect_nonce),
        (as_password_algorithm, is_password_algorithm, expect_password_algorithm),
        (as_password_algorithms, is_password_algorithms, expect_password_algorithms),
        (as_realm, is_realm, expect_realm),
        (as_software, is_software, expect_software),
        (as_unknown_attributes, is_unknown_attributes, expect_unknown_attributes),
        (as_user_hash, is_user_hash, expect_user_hash),
        (as_user_name, is_user_name, expect_user_name),
        (as_xor_mapped_address, is_xor_mapped_address, expect_xor_mapped_address),
        (as_ice_controlled, is_ice_controlled, expect_ice_controlled),
        (as_ice_controlling, is_ice_controlling, expect_ice_controlling),
        (as_priority, is_priority, expect_priority),
        (as_use_candidate, is_use_candidate, expect_use_candidate),
        (as_channel_number, is_channel_number, expect_channel_number),
        (as_life_time, is_life_time, expect_life_time),
        (as_xor_peer_address, is_xor_peer_address, expect_xor_peer_address),
        (as_xor_relayed_address, is_xor_relayed_address, expect_xor_relayed_address),
        (as_data, is_data, expect_data),
        (as_requested_address_family, is_requested_address_family, expect_requested_address_family),
        (as_even_port, is_even_port, expect_even_port),
        (as_dont_fragment, is_dont_fragment, expect_dont_fragment),
        (as_requested_trasport, is_requested_trasport, expect_requested_trasport),
        (as_additional_address_family, is_additional_address_family, expect_additional_address_family),
        (as_reservation_token, is_reservation_token, expect_reservation_token),
        (as_address_error_code, is_address_error_code, expect_address_error_code),
        (as_icmp, is_icmp, expect_icmp),
        (as_mobility_ticket, is_mobility_ticket, expect_mobility_ticket),
        (as_change_request, is_change_request, expect_change_request),
        (as_other_address, is_other_address, expect_other_address),
        (as_padding, is_padding, expect_padding),
        (as_response_origin, is_response_origin, expect_response_origin),
        (as_response_port, is_response_port, expect_response_port),
    );
    if matched != 1 {
        return Err(format!("{} accessor variants match one attribute", matched));
    }
    if lib.attribute_type().as_u16() != a.type_code() {
        return Err(format!("attribute_type {:#06x} != {:#06x}", lib.attribute_type().as_u16(), a.type_code()));
    }
    // accessors read back what the constructor was given (value-level normal form)
    let back = conv::from_lib(&lib);
    let exp = conv::expected_decoded(a, &[]);
    let same = match (&back, &exp) {
        (RAttr::UserName(_), _) | (RAttr::Realm(_), _) | (RAttr::Nonce(_), _) => true,
        (RAttr::Mi(_), _) | (RAttr::MiSha256(_), _) | (RAttr::Fp(_), _) => true,
        (x, y) => x == y,
    };
    if !same {
        return Err(format!("accessors read back {:?}, constructed from {:?}", truncate(&format!("{:?}", back), 200), truncate(&format!("{:?}", exp), 200)));
    }
    let cl = lib.clone();
    if format!("{:?}", cl) != format!("{:?}", lib) {
        return Err("clone renders differently".into());
    }
    let non_ascii = match a {
        RAttr::UserName(s) | RAttr::Realm(s) | RAttr::Nonce(s) | RAttr::Software(s) | RAttr::Padding(s) => !s.is_ascii(),
        RAttr::ErrorCode { reason, .. } | RAttr::AddressErrorCode { reason, .. } => !reason.is_ascii(),
        _ => false,
    };
    if non_ascii {
        st.nontrivial(a);
    }
    Ok(())
}

#[derive(Clone, Debug, Hash, Serialize, Deserialize)]
pub enum CloneOp {
    /// mutate copy k (there are up to 4 copies) by adding a value
    Add(u8, u16),
    /// clone copy k into a new copy
    Clone(u8),
    /// remove attribute kind from copy k (StunAttributes only)
    Remove(u8, u8),
    /// read copy k
    Read(u8),
}

#[derive(Clone, Debug, Hash, Serialize, Deserialize)]
pub struct CloneCase {
    /// 0 PasswordAlgorithms, 1 UnknownAttributes, 2 agent StunAttributes
    pub target: u8,
    pub initial: Vec<u16>,
    pub ops: Vec<CloneOp>,
}

fn arb_clone_case() -> BoxedStrategy<CloneCase> {
    let op = prop_oneof![
        4 => (0u8..4, any::<u16>()).prop_map(|(k, v)| CloneOp::Add(k, v % 40)),
        2 => (0u8..4).prop_map(CloneOp::Clone),
        1 => (0u8..4, 0u8..6).prop_map(|(k, v)| CloneOp::Remove(k, v)),
        2 => (0u8..4).prop_map(CloneOp::Read),
    ];
    (0u8..3, proptest::collection::vec(0u16..40, 0..4), proptest::collection::vec(op, 1..12))
        .prop_map(|(target, initial, ops)| CloneCase { target, initial, ops })
        .boxed()
}

fn sa_attr(v: u16) -> StunAttribute {
    match v % 6 {
        0 => Software::new(format!("s{}", v)).unwrap().into(),
        1 => stun_rs::attributes::ice::Priority::new(v as u32).into(),
        2 => MessageIntegrity::new(HMACKey::new_short_term(format!("k{}", v)).unwrap()).into(),
        3 => MessageIntegritySha256::new(HMACKey::new_short_term(format!("k{}", v)).unwrap()).into(),
        4 => Fingerprint::default().into(),
        _ => UserName::new(format!("u{}", v)).unwrap().into(),
    }
}

fn sa_remove(a: &mut StunAttributes, kind: u8) -> Option<StunAttribute> {
    match kind % 6 {
        0 => a.remove::<Software>(),
        1 => a.remove::<stun_rs::attributes::ice::Priority>(),
        2 => a.remove::<MessageIntegrity>(),
        3 => a.remove::<MessageIntegritySha256>(),
        4 => a.remove::<Fingerprint>(),
        _ => a.remove::<UserName>(),
    }
}

/// model of StunAttributes: ordinary attributes in first-insertion order with replacement, then MI, SHA256, FP
#[derive(Clone, Default)]
struct SaModel {
    plain: Vec<(u8, u16)>,
    mi: Option<u16>,
    sha: Option<u16>,
    fp: Option<u16>,
}

impl SaModel {
    fn add(&mut self, v: u16) {
        let k = (v % 6) as u8;
        match k {
            2 => self.mi = Some(v),
            3 => self.sha = Some(v),
            4 => self.fp = Some(v),
            _ => {
                if let Some(e) = self.plain.iter_mut().find(|e| e.0 == k) {
                    e.1 = v;
                } else {
                    self.plain.push((k, v));
                }
            }
        }
    }
    fn remove(&mut self, kind: u8) -> bool {
        match kind % 6 {
            2 => self.mi.take().is_some(),
            3 => self.sha.take().is_some(),
            4 => self.fp.take().is_some(),
            k => {
                if let Some(i) = self.plain.iter().position(|e| e.0 == k) {
                    self.plain.remove(i);
                    true
                } else {
                    false
                }
            }
        }
    }
    fn render(&self) -> Vec<String> {
        let mut out: Vec<String> = self.plain.iter().map(|(_, v)| format!("{:?}", sa_attr(*v))).collect();
        for v in [self.mi, self.sha, self.fp].into_iter().flatten() {
            out.push(format!("{:?}", sa_attr(v)));
        }
        out
    }
}

pub fn check_clone(c: &CloneCase, st: &mut Stats) -> Result<(), String> {
    let mut mutated_after_clone = false;
    let mut cloned = false;
    match c.target % 3 {
        0 => {
            let mk = |v: u16| {
                let p = [v as u8, 1, 2];
                let params: Option<&[u8]> = if v % 3 == 0 { None } else { Some(&p[..(v % 3) as usize]) };
                PasswordAlgorithm::new(Algorithm::new(AlgorithmId::from(v), params))
            };
            let mut copies: Vec<PasswordAlgorithms> = vec![PasswordAlgorithms::from(c.initial.iter().map(|v| mk(*v)).collect::<Vec<_>>())];
            let mut models: Vec<Vec<u16>> = vec![c.initial.clone()];
            for op in &c.ops {
                let n = copies.len();
                match op {
                    CloneOp::Add(k, v) => {
                        let k = *k as usize % n;
                        copies[k].add(mk(*v));
                        models[k].push(*v);
                        mutated_after_clone |= cloned;
                    }
                    CloneOp::Clone(k) if n < 4 => {
                        let k = *k as usize % n;
                        copies.push(copies[k].clone());
                        models.push(models[k].clone());
                        cloned = true;
                    }
                    _ => {}
                }
                for (i, cp) in copies.iter().enumerate() {
                    let got: Vec<String> = cp.iter().map(|a| format!("{:?}", a)).collect();
                    let exp: Vec<String> = models[i].iter().map(|v| format!("{:?}", mk(*v))).collect();
                    if got != exp || cp.password_algorithms().len() != exp.len() {
                        return Err(format!("PasswordAlgorithms copy {} holds {} entries, model {} after {:?}", i, got.len(), exp.len(), op));
                    }
                    // consuming a clone by value while the other copies are alive yields the same entries
                    let by_value: Vec<String> = cp.clone().into_iter().map(|a| format!("{:?}", a)).collect();
                    if by_value != exp {
                        return Err(format!("PasswordAlgorithms copy {}: clone().into_iter() yields {} entries, model {} after {:?}", i, by_value.len(), exp.len(), op));
                    }
                    // a copy moved into a StunAttribute keeps its entries and leaves the others untouched
                    let wrapped: StunAttribute = cp.clone().into();
                    if wrapped.as_password_algorithms().map(|x| x.iter().count()).unwrap_or(usize::MAX) != exp.len() {
                        return Err(format!("PasswordAlgorithms copy {} wrapped into a StunAttribute lost entries after {:?}", i, op));
                    }
                }
            }
            st.class("target:PasswordAlgorithms");
        }
        1 => {
            let mut copies: Vec<UnknownAttributes> = vec![UnknownAttributes::from(c.initial.as_slice())];
            let dedup = |v: &[u16]| {
                let mut o: Vec<u16> = Vec::new();
                for x in v {
                    if !o.contains(x) {
                        o.push(*x);
                    }
                }
                o
            };
            let mut models: Vec<Vec<u16>> = vec![dedup(&c.initial)];
            for op in &c.ops {
                let n = copies.len();
                match op {
                    CloneOp::Add(k, v) => {
                        let k = *k as usize % n;
                        copies[k].add(*v);
                        if !models[k].contains(v) {
                            models[k].push(*v);
                        }
                        mutated_after_clone |= cloned;
                    }
                    CloneOp::Clone(k) if n < 4 => {
                        let k = *k as usize % n;
                        copies.push(copies[k].clone());
                        models.push(models[k].clone());
                        cloned = true;
                    }
                    _ => {}
                }
                for (i, cp) in copies.iter().enumerate() {
                    if cp.attributes() != &models[i][..] || cp.iter().count() != models[i].len() {
                        return Err(format!("UnknownAttributes copy {} = {:?}, model {:?} after {:?}", i, cp.attributes(), models[i], op));
                    }
                    let wrapped: StunAttribute = cp.clone().into();
                    if wrapped.as_unknown_attributes().map(|x| x.attributes().to_vec()).unwrap_or_default() != models[i] {
                        return Err(format!("UnknownAttributes copy {} wrapped into a StunAttribute differs from the model after {:?}", i, op));
                    }
                }
            }
            st.class("target:UnknownAttributes");
        }
        _ => {
            let mut first = StunAttributes::default();
            let mut m0 = SaModel::default();
            for v in &c.initial {
                first.add(sa_attr(*v));
                m0.add(*v);
            }
            let mut copies = vec![first];
            let mut models = vec![m0];
            for op in &c.ops {
                let n = copies.len();
                match op {
                    CloneOp::Add(k, v) => {
                        let k = *k as usize % n;
                        copies[k].add(sa_attr(*v));
                        models[k].add(*v);
                        mutated_after_clone |= cloned;
                    }
                    CloneOp::Remove(k, kind) => {
                        let k = *k as usize % n;
                        let got = sa_remove(&mut copies[k], *kind).is_some();
                        let exp = models[k].remove(*kind);
                        if got != exp {
                            return Err(format!("StunAttributes::remove returned {} but model {}", got, exp));
                        }
                        mutated_after_clone |= cloned;
                    }
                    CloneOp::Clone(k) if n < 4 => {
                        let k = *k as usize % n;
                        copies.push(copies[k].clone());
                        models.push(models[k].clone());
                        cloned = true;
                    }
                    _ => {}
                }
                for (i, cp) in copies.iter().enumerate() {
                    let v: Vec<StunAttribute> = cp.clone().into();
                    let got: Vec<String> = v.iter().map(|a| format!("{:?}", a)).collect();
                    let exp = models[i].render();
                    if got != exp {
                        return Err(format!("StunAttributes copy {} = {:?}, model {:?} after {:?}", i, got, exp, op));
                    }
                }
            }
            st.class("target:StunAttributes");
        }
    }
    if mutated_after_clone {
        st.nontrivial(c);
        st.class("mutation-after-clone");
    }
    if st.wants_sample() && mutated_after_clone {
        st.sample(json!({"target": c.target % 3, "initial": c.initial, "ops": format!("{:?}", c.ops)}));
    }
    Ok(())
}

pub fn run(ctx: &Ctx) -> RunResult {
    let mut rr = RunResult::new(RULE);
    rr.assumptions = vec![
        "expect_* accessors are called only on the matching variant (a mismatch is documented to panic)".into(),
        "a panic is attributed to the library when its location is outside the harness sources".into(),
    ];
    let ranges: Vec<Range16> = (0u32..64).map(|i| Range16 { lo: i * 1024, hi: i * 1024 + 1023 }).collect();
    let r = run_enum(ctx, "u16", &ranges, |c, st| check_u16_range(c, st));
    let complete = r.1.is_none();
    rr.absorb(r);
    rr.stats.notes.push(format!("all 65536 u16 values (and all u8 values) enumerated: {}", complete));
    let tid = TransactionId::default();
    let _ = (format!("{} {:?}", tid, tid), tid.as_bytes().len());
    rr.absorb(run_prop(
        ctx,
        "strings",
        ctx.pick(300_000, 3_000_000),
        || (arb_string(), arb_string(), prop_oneof![300u16..700, any::<u16>()]).prop_map(|(s, t, code)| StrCase { s, t, code }),
        |c, st| check_strings(c, st),
    ));
    rr.absorb(run_prop(ctx, "cookie", ctx.pick(100_000, 1_000_000), arb_cookie, |c, st| check_cookie(c, st)));
    rr.absorb(run_prop(
        ctx,
        "attr",
        ctx.pick(200_000, 2_000_000),
        || prop_oneof![8 => arb_plain_attr(GenOpts::default()), 1 => arb_tail().prop_filter_map("empty tail", |t| t.into_iter().next())],
        |a, st| check_attr(a, st),
    ));
    rr.absorb(run_prop(ctx, "clone", ctx.pick(200_000, 2_000_000), arb_clone_case, |c, st| check_clone(c, st)));
    rr
}

pub fn replay(_ctx: &Ctx, check: &str, case: &Value) -> Result<(), String> {
    let mut st = Stats::default();
    macro_rules! de {
        ($t:ty) => {
            serde_json::from_value::<$t>(case.clone()).map_err(|e| format!("HARNESS-bad case: {}", e))?
        };
    }
    match check {
        "u16" => {
            let c = de!(Range16);
            guard_str(|| check_u16_range(&c, &mut st))?
        }
        "strings" => {
            let c = de!(StrCase);
            guard_str(|| check_strings(&c, &mut st))?
        }
        "cookie" => {
            let c = de!(CookieCase);
            guard_str(|| check_cookie(&c, &mut st))?
        }
        "attr" => {
            let c = de!(RAttr);
            guard_str(|| check_attr(&c, &mut st))?
        }
        "clone" => {
            let c = de!(CloneCase);
            guard_str(|| check_clone(&c, &mut st))?
        }
        _ => Err(format!("HARNESS-unknown check {}", check)),
    }
}
