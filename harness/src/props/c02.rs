//! C02 — bytes on the wire equal an independent RFC implementation; ignorable bits do not change decoding.

use crate::codec::*;
use crate::conv;
use crate::gen::{arb_msg, GenOpts};
use crate::refcodec::*;
use crate::report::*;
use proptest::prelude::*;
use serde::{Deserialize, Serialize};
use serde_json::{json, Value};
use stun_rs::{MessageMethod, StunMessageBuilder, TransactionId};

pub const RULE: &str = "exhaustive: all 16384 (method,class) pairs encode-side and all 65536 16-bit type values decode-side, \
all 400 error codes x {ERROR-CODE, ADDRESS-ERROR-CODE x 2 families}, all 128x512 ICMP type/code pairs, all 65536 values of five 16-bit fields (CHANNEL-NUMBER, RESPONSE-PORT, plain and XOR-ed IPv4 port, an UNKNOWN-ATTRIBUTES entry), every transaction-id bit \
one-hot x 2 families x 3 XOR attributes; generated: messages as in C01 whose library encoding is compared byte for byte with the \
reference encoder, and whose reference encoding under noise (all ones / random / each ignorable bit alone) must decode to the same values; \
non-trivial = message has >=1 non-empty attribute (A) and, for B, >=1 ignorable bit set; distinct = hash of (message, noise)";

#[derive(Clone, Debug, Serialize, Deserialize)]
pub struct NoisyCase {
    pub msg: RMsg,
    pub seeds: Vec<u64>,
}

fn compare_decoded(m: &stun_rs::StunMessage, model: &RMsg, wire: &Encoded) -> Result<(), String> {
    if m.method().as_u16() != model.method || conv::class_num(m.class()) != model.class {
        return Err(format!(
            "type decoded as ({:#x},{:?}) expected ({:#x},{})",
            m.method().as_u16(),
            m.class(),
            model.method,
            model.class
        ));
    }
    if m.transaction_id().as_bytes() != &model.tid {
        return Err("transaction id differs".into());
    }
    if m.attributes().len() != model.attrs.len() {
        return Err(format!("decoded {} attributes, expected {}", m.attributes().len(), model.attrs.len()));
    }
    for (i, a) in model.attrs.iter().enumerate() {
        let t = &wire.tlv[i];
        let exp = conv::expected_decoded(a, &wire.bytes[t.val_off..t.val_off + t.val_len]);
        if let (RAttr::UserName(e), RAttr::UserName(g)) = (&exp, conv::from_lib(&m.attributes()[i])) {
            if ref_opaque(&g) != *e {
                return Err(format!("attribute {} USERNAME {:?} != {:?}", i, g, e));
            }
            continue;
        }
        conv::attr_matches(&m.attributes()[i], &exp).map_err(|e| format!("attribute {}: {}", i, e))?;
    }
    Ok(())
}

fn first_key(model: &RMsg) -> Option<KeySpec> {
    model.attrs.iter().find_map(|a| match a {
        RAttr::Mi(MacSpec::Keyed { key, .. }) | RAttr::MiSha256(MacSpec::Keyed { key, .. }) => Some(key.clone()),
        _ => None,
    })
}

pub fn check_wire(case: &NoisyCase, st: &mut Stats) -> Result<(), String> {
    let p = match prepare(&case.msg) {
        Ok(p) => p,
        Err(e) => {
            st.class(&format!("rejected-by-constructor:{}", reject_class(&e)));
            return Ok(());
        }
    };
    classify_msg(&p.model, st);
    // A: encoder output is byte-identical to the reference encoding
    let reference = ref_encode(&p.model, &mut Noise::zero());
    let lib_bytes = lib_encode(&p.lib, reference.bytes.len() + 16, None).map_err(|e| format!("encode failed: {}", e))?;
    if lib_bytes != reference.bytes {
        let pos = lib_bytes
            .iter()
            .zip(reference.bytes.iter())
            .position(|(a, b)| a != b)
            .unwrap_or(lib_bytes.len().min(reference.bytes.len()));
        let tlv = reference.tlv.iter().position(|t| pos >= t.hdr_off && pos < t.val_off + t.val_len + t.pad_len);
        return Err(format!(
            "library bytes differ from reference at offset {} (lib len {}, ref len {}), attribute index {:?} kind {:?}: lib {} ref {}",
            pos,
            lib_bytes.len(),
            reference.bytes.len(),
            tlv,
            tlv.map(|i| p.model.attrs[i].kind_name()),
            hex(&lib_bytes[pos.saturating_sub(4)..(pos + 8).min(lib_bytes.len())]),
            hex(&reference.bytes[pos.saturating_sub(4)..(pos + 8).min(reference.bytes.len())]),
        ));
    }
    // A': the encoder's custom-padding option changes the padding bytes only
    let padv = (case.seeds.first().copied().unwrap_or(0xA5) as u8) | 1;
    let ref_pad = ref_encode(&p.model, &mut Noise::new(NoiseMode::PadOnly(padv)));
    let lib_pad = lib_encode(&p.lib, ref_pad.bytes.len() + 16, Some(padv)).map_err(|e| format!("encode with custom padding failed: {}", e))?;
    // MAC / CRC values cover the padding, so they are compared as computed by the reference over its own bytes
    if lib_pad != ref_pad.bytes {
        let pos = lib_pad.iter().zip(ref_pad.bytes.iter()).position(|(a, b)| a != b).unwrap_or(lib_pad.len().min(ref_pad.bytes.len()));
        return Err(format!(
            "with custom padding {:#04x} library bytes differ from reference at offset {} (lib len {}, ref len {}): lib {} ref {}",
            padv,
            pos,
            lib_pad.len(),
            ref_pad.bytes.len(),
            hex(&lib_pad[pos.saturating_sub(4)..(pos + 8).min(lib_pad.len())]),
            hex(&ref_pad.bytes[pos.saturating_sub(4)..(pos + 8).min(ref_pad.bytes.len())])
        ));
    }
    st.evaluations += 1;
    let nonempty = p.model.attrs.iter().any(|a| !matches!(a, RAttr::UseCandidate | RAttr::DontFragment));
    if nonempty {
        st.nontrivial(&(&p.model, 0u64));
    }
    // B: padding and reserved bits never change the decoded value
    let key = first_key(&p.model);
    let lkey = key.as_ref().and_then(|k| conv::lib_key(k).ok());
    let total_bits = {
        let mut n = Noise::new(NoiseMode::Ones);
        ref_encode(&p.model, &mut n).noise_bits
    };
    let mut modes = vec![NoiseMode::Ones];
    for s in &case.seeds {
        modes.push(NoiseMode::Random(*s));
    }
    if total_bits > 0 {
        if total_bits <= 48 {
            for k in 0..total_bits {
                modes.push(NoiseMode::Single(k));
            }
        } else {
            for s in &case.seeds {
                modes.push(NoiseMode::Single((*s % total_bits as u64) as u32));
            }
            modes.push(NoiseMode::Single(0));
            modes.push(NoiseMode::Single(total_bits - 1));
        }
    }
    for mode in modes {
        let mut noise = Noise::new(mode.clone());
        let enc = ref_encode(&p.model, &mut noise);
        let (m, n) = lib_decode(&enc.bytes, &DecOpts::plain())
            .map_err(|e| format!("decode of reference bytes under noise {:?} failed: {}", mode, e))?;
        if n != enc.bytes.len() {
            return Err(format!("consumed {} of {}", n, enc.bytes.len()));
        }
        compare_decoded(&m, &p.model, &enc).map_err(|e| format!("under noise {:?}: {}", mode, e))?;
        // with validation: MAC/CRC computed by the reference over the noisy bytes must be accepted
        let opts = DecOpts {
            key: lkey.clone(),
            validation: true,
            with_ctx: true,
            ..DecOpts::default()
        };
        if key.is_some() || !p.model.attrs.iter().any(|a| matches!(a, RAttr::Mi(_) | RAttr::MiSha256(_))) {
            let (m2, _) = lib_decode(&enc.bytes, &opts)
                .map_err(|e| format!("validated decode of reference bytes under noise {:?} failed: {}", mode, e))?;
            compare_decoded(&m2, &p.model, &enc).map_err(|e| format!("validated, noise {:?}: {}", mode, e))?;
        }
        // B': a message obtained by decoding is a message like any other: encoding it again gives the reference bytes
        // for its logical content, i.e. with reserved bits and padding zeroed (relaying).  Decoded integrity /
        // fingerprint values and unknown attributes cannot be encoded by design and are left out.
        let relayable = !p.model.attrs.iter().any(|a| matches!(a, RAttr::Mi(_) | RAttr::MiSha256(_) | RAttr::Fp(_) | RAttr::Raw { .. }));
        if relayable && enc.noise_set > 0 {
            let again = lib_encode(&m, reference.bytes.len() + 16, None).map_err(|e| format!("re-encoding the message decoded under noise {:?} failed: {}", mode, e))?;
            if again != reference.bytes {
                let pos = again.iter().zip(reference.bytes.iter()).position(|(a, b)| a != b).unwrap_or(again.len().min(reference.bytes.len()));
                let tlv = reference.tlv.iter().position(|t| pos >= t.hdr_off && pos < t.val_off + t.val_len + t.pad_len);
                return Err(format!(
                    "message decoded from bytes with ignorable bits set (noise {:?}) re-encodes differently from the reference at offset {} (attribute {:?}): lib {} ref {}",
                    mode,
                    pos,
                    tlv.map(|i| p.model.attrs[i].kind_name()),
                    hex(&again[pos.saturating_sub(4)..(pos + 8).min(again.len())]),
                    hex(&reference.bytes[pos.saturating_sub(4)..(pos + 8).min(reference.bytes.len())]),
                ));
            }
            st.count("relayed-re-encodings", 1);
        }
        st.count("noisy-decodes", 1);
        st.evaluations += 1;
        if enc.noise_set > 0 {
            st.class("noise:bits-set");
            if nonempty {
                st.nontrivial(&(&p.model, hash_of(&mode)));
            }
        } else {
            st.class("noise:no-ignorable-bit-in-message");
        }
    }
    if st.wants_sample() && p.model.attrs.len() >= 2 {
        let mut s = sample_msg(&p.model, &reference.bytes);
        s["ignorable_bits"] = json!(total_bits);
        st.sample(s);
    }
    Ok(())
}

#[derive(Clone, Debug, Hash, Serialize, Deserialize)]
pub enum EnumCase {
    /// encode-side (method, class)
    TypeEnc(u16, u8),
    /// decode-side raw 16-bit type field
    TypeDec(u16),
    ErrorCode { code: u16, which: u8 },
    Icmp { typ: u8, code: u16 },
    Xor { bit: u8, v6: bool, which: u8 },
    /// every value of a 16-bit field: 0 CHANNEL-NUMBER, 1 RESPONSE-PORT, 2 MAPPED-ADDRESS port, 3 XOR-MAPPED-ADDRESS port,
    /// 4 a single UNKNOWN-ATTRIBUTES entry
    U16Field { which: u8, v: u16 },
}

pub fn check_enum(c: &EnumCase, st: &mut Stats) -> Result<(), String> {
    match c {
        EnumCase::TypeEnc(method, class) => {
            let m = StunMessageBuilder::new(MessageMethod::try_from(*method).map_err(|e| e.to_string())?, conv::class_of(*class))
                .with_transaction_id(TransactionId::from([7u8; 12]))
                .build();
            let b = lib_encode(&m, 20, None)?;
            let want = msg_type(*method, *class);
            if b.len() != 20 || u16::from_be_bytes([b[0], b[1]]) != want {
                return Err(format!("type field {} expected {:04x}", hex(&b[..2.min(b.len())]), want));
            }
            if b[2..8] != [0, 0, 0x21, 0x12, 0xa4, 0x42] || b[8..20] != [7u8; 12] {
                return Err(format!("header bytes wrong: {}", hex(&b)));
            }
            st.nontrivial(c);
        }
        EnumCase::TypeDec(t) => {
            let mut b = vec![0u8; 20];
            b[0..2].copy_from_slice(&t.to_be_bytes());
            b[4..8].copy_from_slice(&MAGIC.to_be_bytes());
            b[8..20].copy_from_slice(&[9u8; 12]);
            let r = lib_decode(&b, &DecOpts::plain());
            if t & 0xC000 != 0 {
                if r.is_ok() {
                    return Err(format!("type field {:04x} with non-zero top bits was accepted", t));
                }
            } else {
                let (m, n) = r.map_err(|e| format!("type field {:04x} rejected: {}", t, e))?;
                let (method, class) = split_msg_type(*t);
                if n != 20 || m.method().as_u16() != method || conv::class_num(m.class()) != class {
                    return Err(format!(
                        "type field {:04x} decoded as ({:#x},{:?}) expected ({:#x},{})",
                        t,
                        m.method().as_u16(),
                        m.class(),
                        method,
                        class
                    ));
                }
            }
            st.nontrivial(c);
        }
        EnumCase::ErrorCode { code, which } => {
            let reason = if code % 3 == 0 { "" } else { "reason \u{e9}" };
            let attr = match which {
                0 => RAttr::ErrorCode {
                    code: *code,
                    reason: reason.into(),
                },
                f => RAttr::AddressErrorCode {
                    family: *f,
                    code: *code,
                    reason: reason.into(),
                },
            };
            let msg = RMsg {
                method: 3,
                class: 3,
                tid: [1; 12],
                attrs: vec![attr],
            };
            check_wire(&NoisyCase { msg, seeds: vec![*code as u64] }, &mut Stats::default())?;
            st.nontrivial(c);
        }
        EnumCase::Icmp { typ, code } => {
            let msg = RMsg {
                method: 7,
                class: 1,
                tid: [2; 12],
                attrs: vec![RAttr::Icmp {
                    typ: *typ,
                    code: *code,
                    data: [*typ, 0xFF, (*code & 0xFF) as u8, 1],
                }],
            };
            // A only (cheap): bytes equal, decode equal
            let p = prepare(&msg)?;
            let reference = ref_encode(&p.model, &mut Noise::zero());
            let lib_bytes = lib_encode(&p.lib, reference.bytes.len(), None)?;
            if lib_bytes != reference.bytes {
                return Err(format!("ICMP bytes {} expected {}", hex(&lib_bytes[20..]), hex(&reference.bytes[20..])));
            }
            let mut noise = Noise::new(NoiseMode::Ones);
            let enc = ref_encode(&p.model, &mut noise);
            let (m, _) = lib_decode(&enc.bytes, &DecOpts::plain())?;
            compare_decoded(&m, &p.model, &enc)?;
            st.nontrivial(c);
        }
        EnumCase::U16Field { which, v } => {
            let attr = match which {
                0 => RAttr::ChannelNumber(*v),
                1 => RAttr::ResponsePort(*v),
                2 => RAttr::MappedAddress(RAddr::V4([192, 0, 2, 1], *v)),
                3 => RAttr::XorMappedAddress(RAddr::V4([192, 0, 2, 1], *v)),
                _ => RAttr::UnknownAttributes(vec![*v]),
            };
            let msg = RMsg { method: 1, class: 2, tid: [0x5C; 12], attrs: vec![attr] };
            let p = prepare(&msg)?;
            let reference = ref_encode(&p.model, &mut Noise::zero());
            let lib_bytes = lib_encode(&p.lib, reference.bytes.len(), None)?;
            if lib_bytes != reference.bytes {
                return Err(format!("bytes {} expected {}", hex(&lib_bytes[20..]), hex(&reference.bytes[20..])));
            }
            let (m, _) = lib_decode(&reference.bytes, &DecOpts::plain())?;
            compare_decoded(&m, &p.model, &reference)?;
            st.nontrivial(c);
        }
        EnumCase::Xor { bit, v6, which } => {
            let mut tid = [0u8; 12];
            tid[(*bit / 8) as usize] = 0x80 >> (bit % 8);
            let addr = if *v6 {
                RAddr::V6([0x5A; 16], 0x1234)
            } else {
                RAddr::V4([0x5A; 4], 0x1234)
            };
            let attr = match which {
                0 => RAttr::XorMappedAddress(addr),
                1 => RAttr::XorPeerAddress(addr),
                _ => RAttr::XorRelayedAddress(addr),
            };
            let msg = RMsg {
                method: 1,
                class: 2,
                tid,
                attrs: vec![attr],
            };
            check_wire(&NoisyCase { msg, seeds: vec![] }, &mut Stats::default())?;
            st.nontrivial(c);
        }
    }
    Ok(())
}

/// RFC 5769 / RFC 8489 B.1 vectors: both codecs agree, MAC and CRC verify under the reference crypto.
pub fn check_vectors(st: &mut Stats) -> Result<(), String> {
    use vectors::*;
    let short = KeySpec::ShortTerm(PASSWORD_SHORT.to_string());
    let long_user = "\u{30DE}\u{30C8}\u{30EA}\u{30C3}\u{30AF}\u{30B9}";
    let long = KeySpec::LongTerm {
        user: long_user.into(),
        realm: "example.org".into(),
        password: "TheMatrIX".into(),
        alg: 1,
    };
    let long256 = KeySpec::LongTerm {
        user: long_user.into(),
        realm: "example.org".into(),
        password: "TheMatrIX".into(),
        // RFC 8489 B.1 carries no PASSWORD-ALGORITHM, so the key is the MD5 one; only the MAC is SHA-256
        alg: 1,
    };
    let cases: Vec<(&str, &[u8], KeySpec, bool)> = vec![
        ("sample-request", &SAMPLE_REQUEST, short.clone(), true),
        ("sample-ipv4-response", &SAMPLE_IPV4_RESPONSE, short.clone(), true),
        ("sample-ipv6-response", &SAMPLE_IPV6_RESPONSE, short, true),
        ("sample-long-term", &SAMPLE_LONG_TERM, long, false),
        ("sample-long-term-sha256", &SAMPLE_LONG_TERM_SHA256, long256, false),
    ];
    for (name, bytes, key, has_fp) in cases {
        st.evaluations += 1;
        let w = ref_decode(bytes).map_err(|e| format!("HARNESS-reference decoder rejects vector {}: {:?}", name, e))?;
        let kb = key.key_bytes();
        let mac_ok = verify_first(bytes, &w, T_MI, &kb).or(verify_first(bytes, &w, T_MI_SHA256, &kb));
        if mac_ok != Some(true) {
            return Err(format!("HARNESS-vector {} MAC does not verify under reference crypto", name));
        }
        if has_fp && verify_first(bytes, &w, T_FINGERPRINT, &[]) != Some(true) {
            return Err(format!("HARNESS-vector {} CRC does not verify under reference crypto", name));
        }
        let lkey = conv::lib_key(&key)?;
        if lkey.as_bytes() != &kb[..] {
            return Err(format!("vector {}: library key {} != reference key {}", name, hex(lkey.as_bytes()), hex(&kb)));
        }
        for opts in [
            DecOpts::plain(),
            DecOpts {
                key: Some(lkey.clone()),
                validation: true,
                with_ctx: true,
                ..DecOpts::default()
            },
        ] {
            let (m, n) = lib_decode(bytes, &opts).map_err(|e| format!("vector {} rejected ({}): {}", name, opts.name(), e))?;
            if n != bytes.len() || m.attributes().len() != w.attrs.len() {
                return Err(format!("vector {}: consumed {} attrs {}", name, n, m.attributes().len()));
            }
            if m.method().as_u16() != w.method || conv::class_num(m.class()) != w.class || m.transaction_id().as_bytes() != &w.tid {
                return Err(format!("vector {}: header differs", name));
            }
            for (i, wa) in w.attrs.iter().enumerate() {
                let exp = parse_attr(wa, &w.tid).map_err(|e| format!("HARNESS-vector {} attr {}: {:?}", name, i, e))?;
                conv::attr_matches(&m.attributes()[i], &exp).map_err(|e| format!("vector {} attribute {}: {}", name, i, e))?;
            }
        }
        st.nontrivial(&name);
        if st.wants_sample() {
            st.sample(json!({"vector": name, "len": bytes.len(), "attrs": w.attrs.iter().map(|a| format!("{:#06x}", a.typ)).collect::<Vec<_>>()}));
        }
    }
    Ok(())
}

pub fn arb_case() -> impl Strategy<Value = NoisyCase> {
    (arb_msg(GenOpts::default()), proptest::collection::vec(any::<u64>(), 2..4)).prop_map(|(msg, seeds)| NoisyCase { msg, seeds })
}

pub fn enum_cases() -> Vec<EnumCase> {
    let mut v = Vec::new();
    for method in 0u16..=0xFFF {
        for class in 0u8..4 {
            v.push(EnumCase::TypeEnc(method, class));
        }
    }
    for t in 0u16..=0xFFFF {
        v.push(EnumCase::TypeDec(t));
    }
    for code in 300u16..=699 {
        for which in 0u8..3 {
            v.push(EnumCase::ErrorCode { code, which });
        }
    }
    for typ in 0u8..=127 {
        for code in 0u16..=511 {
            v.push(EnumCase::Icmp { typ, code });
        }
    }
    for bit in 0u8..96 {
        for v6 in [false, true] {
            for which in 0u8..3 {
                v.push(EnumCase::Xor { bit, v6, which });
            }
        }
    }
    for which in 0u8..5 {
        for x in 0u16..=0xFFFF {
            v.push(EnumCase::U16Field { which, v: x });
        }
    }
    v
}

pub fn run(ctx: &Ctx) -> RunResult {
    let mut rr = RunResult::new(RULE);
    rr.assumptions = vec![
        "reference codec written from RFC 8489/8445/8656/5780/8016; PASSWORD-ALGORITHMS inner padding: between entries, none after the last (interpretation of RFC 8489 14.11)".into(),
        "RESPONSE-PORT encoded with length 2 plus 2 padding bytes (interpretation of RFC 5780 7.5)".into(),
        "the 30 undefined bits of CHANGE-REQUEST are treated as reserved (noise bits)".into(),
        "constructor refusals are counted, not violations".into(),
    ];
    let mut st = Stats::default();
    if let Err(e) = check_vectors(&mut st) {
        rr.violations.push(Violation {
            check: "vectors".into(),
            reason: e,
            case: Value::Null,
        });
    }
    rr.stats.merge(st);
    let cases = enum_cases();
    let r = run_enum(ctx, "enum", &cases, |c, st| check_enum(c, st));
    let complete = r.1.is_none();
    rr.absorb(r);
    rr.stats.notes.push(format!(
        "enumerated sub-domains complete: {} ({} cases: 16384 type pairs, 65536 type fields, 1200 error codes, 65536 ICMP pairs, 576 XOR one-hot cases, 5 x 65536 16-bit field values)",
        complete,
        cases.len()
    ));
    let n = ctx.pick(150_000, 2_000_000);
    rr.absorb(run_prop(ctx, "wire", n, arb_case, |c, st| check_wire(c, st)));
    rr
}

pub fn replay(_ctx: &Ctx, check: &str, case: &Value) -> Result<(), String> {
    let mut st = Stats::default();
    match check {
        "wire" => {
            let c: NoisyCase = serde_json::from_value(case.clone()).map_err(|e| format!("HARNESS-bad case: {}", e))?;
            guard_str(|| check_wire(&c, &mut st))?
        }
        "enum" => {
            let c: EnumCase = serde_json::from_value(case.clone()).map_err(|e| format!("HARNESS-bad case: {}", e))?;
            guard_str(|| check_enum(&c, &mut st))?
        }
        "vectors" => guard_str(|| check_vectors(&mut st))?,
        _ => Err(format!("HARNESS-unknown check {}", check)),
    }
}
