//! Decoding of fuzzer bytes into structured cases (arbitrary::Unstructured, no derive) for the libFuzzer targets.

use crate::gen::{build_string, tail_of};
use crate::refcodec::*;
use crate::sim::*;
use arbitrary::{Result as AResult, Unstructured};

fn text(u: &mut Unstructured, min: usize, limit: usize, alphas: &[u8]) -> AResult<String> {
    let sel: u8 = u.arbitrary()?;
    let len = match sel % 8 {
        0 => min,
        1 => limit,
        2 => limit.saturating_sub(1).max(min),
        3 | 4 => u.int_in_range(min..=limit)?,
        _ => u.int_in_range(min..=(min + 12).min(limit))?,
    };
    let alpha = alphas[u.arbitrary::<u8>()? as usize % alphas.len()];
    let n: usize = u.int_in_range(1..=6)?;
    let mut seed = Vec::new();
    for _ in 0..n {
        seed.push(u.arbitrary::<u16>()?);
    }
    Ok(build_string(len, alpha, &seed))
}

fn addr(u: &mut Unstructured) -> AResult<RAddr> {
    let port: u16 = u.arbitrary()?;
    Ok(match u.arbitrary::<u8>()? % 4 {
        0 => RAddr::V4(u.arbitrary()?, port),
        1 => RAddr::V6(u.arbitrary()?, port),
        2 => RAddr::V6(crate::gen::special_v6(u.arbitrary()?, u.arbitrary()?, u.arbitrary()?), port),
        _ => RAddr::V4(crate::gen::special_v4(u.arbitrary()?), port),
    })
}

fn bytes(u: &mut Unstructured, max: usize) -> AResult<Vec<u8>> {
    let n: usize = u.int_in_range(0..=max)?;
    Ok(u.bytes(n.min(u.len()))?.to_vec())
}

fn alg(u: &mut Unstructured) -> AResult<RAlg> {
    let id = match u.arbitrary::<u8>()? % 4 {
        0 => 1,
        1 => 2,
        2 => 0,
        _ => u.arbitrary()?,
    };
    Ok(RAlg { id, params: bytes(u, 9)? })
}

pub fn attr_from(u: &mut Unstructured) -> AResult<RAttr> {
    const STABLE: &[u8] = &[0, 0, 1, 2, 3, 4, 5];
    const ANY: &[u8] = &[0, 1, 2, 3, 4, 5, 6];
    let code = |u: &mut Unstructured| -> AResult<u16> { Ok(300 + u.arbitrary::<u16>()? % 400) };
    Ok(match u.arbitrary::<u8>()? % 35 {
        0 => RAttr::MappedAddress(addr(u)?),
        1 => RAttr::AlternateServer(addr(u)?),
        2 => RAttr::OtherAddress(addr(u)?),
        3 => RAttr::ResponseOrigin(addr(u)?),
        4 => RAttr::XorMappedAddress(addr(u)?),
        5 => RAttr::XorPeerAddress(addr(u)?),
        6 => RAttr::XorRelayedAddress(addr(u)?),
        7 => RAttr::UserName(text(u, 1, 508, STABLE)?),
        8 => RAttr::Realm(text(u, 1, 509, &[0])?.replace(['"', '\\'], "r")),
        9 => RAttr::Nonce(text(u, 0, 509, &[0])?.replace(['"', '\\'], "n")),
        10 => RAttr::Software(text(u, 0, 509, ANY)?),
        11 => RAttr::Padding(text(u, 0, 1200, ANY)?),
        12 => RAttr::ErrorCode { code: code(u)?, reason: text(u, 0, 509, ANY)? },
        13 => {
            let n: usize = u.int_in_range(0..=8)?;
            let mut v: Vec<u16> = Vec::new();
            for _ in 0..n {
                let t: u16 = u.arbitrary()?;
                if !v.contains(&t) {
                    v.push(t);
                }
            }
            RAttr::UnknownAttributes(v)
        }
        14 => RAttr::UserHash(UserHashSpec::Names { user: text(u, 1, 40, STABLE)?, realm: text(u, 1, 40, STABLE)? }),
        15 => RAttr::PasswordAlgorithm(alg(u)?),
        16 => {
            let n: usize = u.int_in_range(0..=4)?;
            let mut l = Vec::new();
            for _ in 0..n {
                l.push(alg(u)?);
            }
            RAttr::PasswordAlgorithms(l)
        }
        17 => RAttr::IceControlled(u.arbitrary()?),
        18 => RAttr::IceControlling(u.arbitrary()?),
        19 => RAttr::Priority(u.arbitrary()?),
        20 => RAttr::UseCandidate,
        21 => RAttr::ChannelNumber(u.arbitrary()?),
        22 => RAttr::LifeTime(u.arbitrary()?),
        23 => RAttr::Data(bytes(u, 300)?),
        24 => RAttr::RequestedAddressFamily(1 + u.arbitrary::<u8>()? % 2),
        25 => RAttr::AdditionalAddressFamily(1 + u.arbitrary::<u8>()? % 2),
        26 => RAttr::EvenPort(u.arbitrary()?),
        27 => RAttr::DontFragment,
        28 => RAttr::RequestedTransport(if u.arbitrary::<bool>()? { 17 } else { 0 }),
        29 => RAttr::ReservationToken(u.arbitrary()?),
        30 => RAttr::AddressErrorCode { family: 1 + u.arbitrary::<u8>()? % 2, code: code(u)?, reason: text(u, 0, 509, ANY)? },
        31 => RAttr::Icmp { typ: u.arbitrary::<u8>()? % 128, code: u.arbitrary::<u16>()? % 512, data: u.arbitrary()? },
        32 => RAttr::MobilityTicket(bytes(u, 300)?),
        33 => RAttr::ChangeRequest { ip: u.arbitrary()?, port: u.arbitrary()? },
        _ => RAttr::ResponsePort(u.arbitrary()?),
    })
}

pub fn msg_from(u: &mut Unstructured) -> AResult<RMsg> {
    let method = u.arbitrary::<u16>()? & 0xFFF;
    let class = u.arbitrary::<u8>()? & 3;
    let tid: [u8; 12] = u.arbitrary()?;
    let n: usize = u.int_in_range(0..=10)?;
    let mut attrs = Vec::new();
    for _ in 0..n {
        attrs.push(attr_from(u)?);
    }
    let k = u.arbitrary::<u8>()? % 8;
    let key = if u.arbitrary::<bool>()? {
        KeySpec::ShortTerm(text(u, 1, 30, &[0, 1, 3])?)
    } else {
        KeySpec::LongTerm {
            user: text(u, 1, 20, &[0, 1, 3])?,
            realm: "example.org".into(),
            password: text(u, 1, 20, &[0, 1, 3])?,
            alg: 1 + u.arbitrary::<u16>()? % 2,
        }
    };
    attrs.extend(tail_of(k, &key));
    Ok(RMsg { method, class, tid, attrs })
}

/// One hostile buffer against a client prepared in the state selected by the first two bytes.
pub fn client_case(data: &[u8]) -> Result<(), String> {
    if data.len() < 3 {
        return Ok(());
    }
    let (s0, s1) = (data[0], data[1]);
    let mech = match s0 % 5 {
        0 => Mech::None,
        1 => Mech::ShortTerm(None),
        2 => Mech::ShortTerm(Some(false)),
        3 => Mech::ShortTerm(Some(true)),
        _ => Mech::LongTerm,
    };
    let cfg = ClientCfg {
        mech: mech.clone(),
        fingerprint: s0 & 0x20 != 0,
        reliable: if s0 & 0x40 != 0 { Some(5_000) } else { None },
        ..ClientCfg::default_unreliable()
    };
    let mut sim = Sim::new(&cfg).map_err(|e| format!("HARNESS-{}", e))?;
    let fp = if cfg.fingerprint { FpMode::Valid } else { FpMode::Absent };
    let send = |sim: &mut Sim| {
        sim.now += 10_000_000;
        let _ = sim.step(&Op::Send { method: 1, attrs: vec![], small_buf: false });
    };
    let reply = |sim: &mut Sim, body: Body, auth: Auth| {
        sim.now += 3_000_000;
        let last = (sim.awaiting().len().max(1) - 1) as u8;
        let _ = sim.step(&Op::Deliver(Reply { target: Target::Outstanding(last), body, extra: 1, auth, fp: fp.clone(), dup: false, twist: 0 }));
    };
    send(&mut sim);
    let depth = s1 % 4;
    if mech == Mech::LongTerm && depth >= 1 {
        reply(&mut sim, Body::Lt401 { algs: s1 >> 2 & 3, anon: s1 & 0x10 != 0, cookie: true, realm: 0, nonce: 1, drop_realm: false, drop_nonce: false }, Auth::None);
        send(&mut sim);
        if depth >= 2 {
            reply(&mut sim, Body::Success, Auth::ValidExpected);
            send(&mut sim);
        }
    } else if depth >= 2 {
        send(&mut sim);
    }
    let mut hostile = data[2..].to_vec();
    if s1 & 0x40 != 0 && hostile.len() >= 20 {
        if let Some(i) = sim.awaiting().last() {
            let tid = sim.reqs[*i].tid;
            hostile[8..20].copy_from_slice(&tid);
            hostile[4..8].copy_from_slice(&MAGIC.to_be_bytes());
            hostile[0] &= 0x3F;
        }
    }
    if s1 & 0x80 != 0 {
        hostile = append_valid_fp(&hostile);
    }
    sim.now += 1_000_000;
    let findings = match crate::report::guard(|| sim.do_deliver(&hostile, false)) {
        crate::report::Guard::Ok(f) => f,
        crate::report::Guard::LibPanic(m) => return Err(format!("C03 client panicked on a received buffer: {}", m)),
        crate::report::Guard::HarnessPanic(m) => return Err(format!("HARNESS-{}", m)),
    };
    for f in findings {
        if f.known.is_none() && f.tags.iter().any(|t| ["C17", "C05", "C10"].contains(t)) {
            return Err(format!("{} {}", f.tags.join(","), f.msg));
        }
    }
    match crate::report::guard(|| sim.drain(&[0])) {
        crate::report::Guard::Ok(_) => Ok(()),
        crate::report::Guard::LibPanic(m) => Err(format!("C03 client panicked in a timer call after a hostile buffer: {}", m)),
        crate::report::Guard::HarnessPanic(m) => Err(format!("HARNESS-{}", m)),
    }
}

// ---------------------------------------------------------------------------------------------------------------
// fz_history: a whole client history decoded from fuzzer bytes (configuration, then one operation per opcode byte)

const FZ_CREDS: [(&str, &str); 7] = [
    ("user", "secret-pass"),
    ("x\u{a0}y ", "p\u{e4}ss word"),
    ("u", "0123456789012345678901234567890123456789012345678901234567890123"),
    ("user", "0123456789012345678901234567890123456789012345678901234567890123456789-longer-than-the-hmac-block"),
    ("\u{212b}ngstr\u{f6}m", "\u{3000}wide"),
    ("a-user-name-that-is-rather-long@example.org", "p"),
    ("user", " blanks at both ends "),
];

fn fz_reply(u: &mut Unstructured) -> AResult<Reply> {
    let t: u8 = u.arbitrary()?;
    let target = match t % 10 {
        0..=6 => Target::Outstanding(t >> 4),
        7 | 8 => Target::Finished(t >> 4),
        _ => Target::Unknown([t; 12]),
    };
    let b: u8 = u.arbitrary()?;
    let body = match b % 16 {
        0..=5 => Body::Success,
        6 => Body::Error(u.arbitrary::<u16>()? % 700),
        7 => Body::Error([300u16, 400, 401, 420, 438, 500, 699, 0][(b >> 4) as usize % 8]),
        8..=11 => {
            let x: u16 = u.arbitrary()?;
            Body::Lt401 {
                algs: (x % 10) as u8,
                anon: x & 0x400 != 0,
                cookie: x & 16 != 0,
                realm: (x >> 5 & 3) as u8,
                nonce: ((x >> 7) % 9) as u8,
                drop_realm: x >> 12 == 0xF,
                drop_nonce: x >> 12 == 0xE,
            }
        }
        12 | 13 => Body::Lt438 { nonce: (b >> 4) % 9, drop_nonce: b >> 4 == 0xF },
        14 => Body::Indication,
        _ => Body::Request,
    };
    let a: u8 = u.arbitrary()?;
    let auth = match a % 18 {
        0..=5 => Auth::ValidExpected,
        6 | 7 => Auth::ValidMi,
        8 | 9 => Auth::ValidSha,
        10..=12 => Auth::None,
        13 => Auth::Both,
        14 => Auth::CorruptMi,
        15 => Auth::CorruptSha,
        16 => Auth::WrongKeyMi,
        _ => Auth::WrongKeySha,
    };
    let f: u8 = u.arbitrary()?;
    let fp = match f % 12 {
        0..=5 => FpMode::Valid,
        6..=8 => FpMode::Absent,
        9 => FpMode::Corrupt,
        10 => FpMode::Misplaced,
        _ => FpMode::CorruptThenValid,
    };
    Ok(Reply {
        target,
        body,
        extra: (a >> 5) % 4,
        auth,
        fp,
        dup: f >> 4 == 0xF,
        twist: if f >> 4 >= 12 { u.arbitrary::<u8>()? % 128 } else { 0 },
    })
}

fn fz_app_attrs(u: &mut Unstructured, sel: u8) -> AResult<Vec<RAttr>> {
    let n = match sel % 8 {
        0..=3 => 0,
        4 | 5 => 1,
        6 => 2,
        _ => 1 + u.arbitrary::<u8>()? as usize % 6,
    };
    let mut v = Vec::new();
    for _ in 0..n {
        let k: u8 = u.arbitrary()?;
        let key = KeySpec::ShortTerm("app-key".into());
        v.push(match k % 20 {
            0 => RAttr::UserName("app-user".into()),
            1 => RAttr::Realm("app-realm".into()),
            2 => RAttr::Nonce("app-nonce".into()),
            3 => RAttr::UserHash(UserHashSpec::Names { user: "a".into(), realm: "b".into() }),
            4 => RAttr::PasswordAlgorithm(RAlg { id: 1, params: vec![] }),
            5 => RAttr::PasswordAlgorithms(vec![RAlg { id: 2, params: vec![] }]),
            6 => RAttr::Mi(MacSpec::Keyed { key, fault: Fault::Correct }),
            7 => RAttr::MiSha256(MacSpec::Keyed { key, fault: Fault::Correct }),
            8 => RAttr::Fp(FpSpec::Computed(Fault::Correct)),
            9 => RAttr::Software("first".into()),
            10 => RAttr::Software("second".into()),
            11 => RAttr::Priority(1),
            12 => RAttr::Priority(2),
            13 => RAttr::Fp(FpSpec::Wire(vec![1, 2, 3, 4])),
            14 => RAttr::Mi(MacSpec::Wire(vec![7; 20])),
            15 => RAttr::MiSha256(MacSpec::Wire(vec![9; 32])),
            _ => {
                let a = attr_from(u)?;
                if crate::codec::var_len(&a).map(|l| l < 200).unwrap_or(true) && crate::conv::to_lib(&a).is_ok() {
                    a
                } else {
                    RAttr::UseCandidate
                }
            }
        });
    }
    Ok(v)
}

fn fz_mutation(u: &mut Unstructured) -> AResult<crate::mutate::Mutation> {
    use crate::mutate::Mutation as M;
    let k: u8 = u.arbitrary()?;
    Ok(match k % 15 {
        0 => M::FlipBit(u.arbitrary()?),
        1 => M::SetByte(u.arbitrary()?, u.arbitrary()?),
        2 => M::Truncate(u.arbitrary()?, (k >> 4) as i8 % 3 - 1),
        3 => M::TruncateFix(u.arbitrary()?, (k >> 4) as i8 % 3 - 1),
        4 => M::HeaderLen((k >> 4) % 7),
        5 => M::AttrLen(u.arbitrary()?, (k >> 4) % 7),
        6 => M::NestedLen(u.arbitrary()?, (k >> 4) % 7),
        7 => M::Dup(u.arbitrary()?),
        8 => M::Swap(u.arbitrary()?, u.arbitrary()?),
        9 => M::Remove(u.arbitrary()?),
        10 => M::Inject(u.arbitrary()?, u.arbitrary::<u8>()? as u16, u.arbitrary()?),
        11 => M::Overwrite(u.arbitrary()?, u.arbitrary::<u8>()? as u16, u.arbitrary()?),
        12 => M::Retype(u.arbitrary()?, u.arbitrary()?),
        13 => M::AppendJunk(bytes(u, 23)?),
        _ => M::InsertAttr(u.arbitrary()?, u.arbitrary()?, bytes(u, 39)?),
    })
}

const FZ_DT: [u64; 16] = [
    1_000_000,
    3_000_000,
    20_000_000,
    100_000_000,
    250_000_000,
    500_000_000,
    1_000_000_000,
    5_000_000_000,
    39_500_000_000,
    40_000_000_000,
    599_999_999_999,
    600_000_000_000,
    600_000_000_001,
    700_000_000_000,
    1,
    999_999,
];

pub fn history_from(u: &mut Unstructured) -> AResult<History> {
    let b0: u8 = u.arbitrary()?;
    let b1: u8 = u.arbitrary()?;
    let b2: u8 = u.arbitrary()?;
    let mech = match b0 % 6 {
        0 => Mech::None,
        1 => Mech::ShortTerm(None),
        2 => Mech::ShortTerm(Some(false)),
        3 => Mech::ShortTerm(Some(true)),
        _ => Mech::LongTerm,
    };
    let reliable = if b0 & 0x80 != 0 { Some([39_500u64, 1, 5_000, 60_000][(b1 & 3) as usize]) } else { None };
    let rto_us = match b1 >> 2 & 3 {
        0 | 1 => 500_000,
        2 => 1_000 + u.arbitrary::<u16>()? as u64 * 45,
        _ => 1_000,
    };
    let gran_us = match b1 >> 4 & 3 {
        0 | 1 => 1_000,
        2 => 1,
        _ => 1 + u.arbitrary::<u16>()? as u64,
    };
    let (rm, rc) = match b1 >> 6 {
        0 | 1 => (16u32, 7u32),
        2 => (1 + (b2 & 0x1F) as u32, 1 + (b2 >> 5) as u32),
        _ => (1 + (b2 & 3) as u32, 1 + (b2 >> 2 & 3) as u32),
    };
    let max_tx = match b2 % 8 {
        0..=2 => 10,
        7 => 12,
        k => (k - 3) as usize,
    };
    let (user, password) = FZ_CREDS[(b2 >> 3) as usize % FZ_CREDS.len()];
    let cfg = ClientCfg {
        reliable,
        rto_us,
        gran_us,
        rm,
        rc,
        mech,
        fingerprint: b0 & 0x40 != 0,
        max_tx,
        user: user.into(),
        password: password.into(),
    };
    let mut ops = Vec::new();
    while !u.is_empty() && ops.len() < 64 {
        let o: u8 = u.arbitrary()?;
        let hi = o >> 4;
        ops.push(match o % 16 {
            0..=2 => Op::Send {
                method: [1u16, 1, 1, 3, 4, 0xFFF, 0, 0x80][(hi % 8) as usize],
                attrs: fz_app_attrs(u, hi)?,
                small_buf: hi == 0xF,
            },
            3 => Op::Indication { method: if hi & 1 == 0 { 1 } else { 6 }, attrs: fz_app_attrs(u, hi)? },
            4 => Op::Advance(FZ_DT[hi as usize]),
            5 => Op::AdvanceHalfRtos(1 + hi * 4 + u.arbitrary::<u8>()? % 4),
            6 => Op::Timer(TimerKind::Exact),
            7 => Op::Timer(if hi < 8 { TimerKind::Late(FZ_DT[hi as usize]) } else { TimerKind::Early(FZ_DT[(hi - 8) as usize * 2 + 1]) }),
            8 => Op::Timer(if hi == 0 { TimerKind::Now } else { TimerKind::LateHalfRtos(hi * 10 + u.arbitrary::<u8>()? % 10) }),
            9..=12 => Op::Deliver(fz_reply(u)?),
            13 => Op::DeliverRaw(bytes(u, 63)?),
            14 => {
                let reply = fz_reply(u)?;
                let n = 1 + hi as usize % 3;
                let mut muts = Vec::new();
                for _ in 0..n {
                    muts.push(fz_mutation(u)?);
                }
                Op::DeliverMutated { reply, muts, fix_fp: hi & 8 != 0 }
            }
            _ => Op::Advance(u.arbitrary::<u32>()? as u64 * 1_000),
        });
    }
    let lates = vec![0, FZ_DT[(b0 >> 3 & 7) as usize], 0];
    Ok(History { cfg, ops, lates })
}

/// Run one decoded history with the invariants of `focus` (the same judge as the proptest checks).
pub fn history_case(data: &[u8], focus: &[&str], ctx: &crate::report::Ctx, drain: bool) -> Result<(), String> {
    let mut u = Unstructured::new(data);
    let h = match history_from(&mut u) {
        Ok(h) => h,
        Err(_) => return Ok(()),
    };
    let mut st = crate::report::Stats::default();
    if focus == ["C03"] {
        // the same check as the generated one: no panic anywhere in the history, and the client stays usable
        return crate::props::c03::check_client(&h, ctx, &mut st);
    }
    run_history(&h, focus, ctx, &mut st, drain).map(|_| ())
}
