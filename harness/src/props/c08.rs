//! C08 — long-term credentials: challenge, retry and authenticated delivery, judged by a reference
//! RFC 8489 §9.2.4 server.

use crate::refcodec::*;
use crate::refcrypto;
use crate::report::*;
use crate::sim::hgen::{arb_app_attrs, arb_history, HistOpts};
use crate::sim::*;
use proptest::prelude::*;
use serde::{Deserialize, Serialize};
use serde_json::{json, Value};

pub const RULE: &str = "server behaviour scripts of 1-6 request/response exchanges against a long-term client on both transports: the \
reference server (written from RFC 8489 9.2.4) answers each client request with a behaviour drawn from {401 challenge with/without \
PASSWORD-ALGORITHMS (4 list shapes), with/without the anonymity bit, cookie or plain nonce, 4 realms; 438 with a new nonce; authenticated \
success; unauthenticated / wrongly keyed / wrong-algorithm success; other error codes with and without integrity; unsupported algorithm list; \
401 missing realm or nonce; non-conforming 401 (algorithms without the cookie bit); no answer}, requests carry application attributes that \
collide with credential attributes, some exchanges are indications; every client request is checked by the reference server's acceptance \
rules and by the packet oracle (R1-R4), every delivery by the reference HMAC; plus generic long-term histories from the shared generator; \
non-trivial = at least 3 exchanges including a state change other than the first 401; distinct = hash of the script";

#[derive(Clone, Debug, Hash, PartialEq, Eq, Serialize, Deserialize)]
pub enum Beh {
    Challenge { algs: u8, anon: bool, cookie: bool, realm: u8, nonce: u8 },
    Stale { nonce: u8, with_integrity: bool, #[serde(default)] other_algs: bool },
    /// what an RFC server does: authenticated success if the request is acceptable, else the RFC's error
    Natural,
    SuccessUnauth,
    SuccessWrongKey,
    SuccessOtherAlg,
    OtherError { code: u16, auth: bool },
    UnsupportedAlgs,
    MissingRealm,
    MissingNonce,
    NonConforming,
    NoAnswer,
}

#[derive(Clone, Debug, Hash, Serialize, Deserialize)]
pub struct Exchange {
    pub app: Vec<RAttr>,
    pub beh: Beh,
    pub indication: bool,
    pub method: u16,
}

#[derive(Clone, Debug, Hash, Serialize, Deserialize)]
pub struct Script {
    pub reliable: Option<u64>,
    pub fingerprint: bool,
    pub user: String,
    pub password: String,
    pub exchanges: Vec<Exchange>,
}

#[derive(Clone, Debug, Default)]
struct Server {
    realm: String,
    nonce: String,
    algs: Option<Vec<RAlg>>,
    challenged: bool,
    conforming: bool,
}

#[derive(Debug, PartialEq, Eq)]
enum Verdict {
    Accept,
    Reject(u16, &'static str),
}

/// RFC 8489 §9.2.4 "Receiving a Request" for one known user.
fn server_check(srv: &Server, user: &str, password: &str, bytes: &[u8]) -> Verdict {
    let Ok(w) = ref_decode(bytes) else { return Verdict::Reject(400, "undecodable") };
    let mut attrs = Vec::new();
    for a in &w.attrs {
        match parse_attr(a, &w.tid) {
            Ok(p) => attrs.push((a, p)),
            Err(_) => return Verdict::Reject(400, "malformed attribute"),
        }
    }
    let find = |t: u16| attrs.iter().find(|(a, _)| a.typ == t);
    let mi = find(T_MI);
    let sha = find(T_MI_SHA256);
    let username = find(T_USERNAME);
    let userhash = find(T_USERHASH);
    if (mi.is_none() && sha.is_none()) || (username.is_none() && userhash.is_none()) {
        return Verdict::Reject(401, "no MESSAGE-INTEGRITY(-SHA256) or no USERNAME/USERHASH");
    }
    let realm = find(T_REALM);
    let nonce = find(T_NONCE);
    if realm.is_none() || nonce.is_none() {
        return Verdict::Reject(400, "integrity present but REALM or NONCE missing");
    }
    let nonce_s = match &nonce.unwrap().1 {
        RAttr::Nonce(n) => n.clone(),
        _ => return Verdict::Reject(400, "nonce"),
    };
    let mut key_alg = 1u16;
    if cookie_bits(&nonce_s).map(|b| b.0).unwrap_or(false) {
        let pa = find(T_PASSWORD_ALGORITHM);
        let pas = find(T_PASSWORD_ALGORITHMS);
        if pa.is_some() || pas.is_some() {
            let (Some((_, RAttr::PasswordAlgorithm(pa))), Some((_, RAttr::PasswordAlgorithms(pas)))) = (pa, pas) else {
                return Verdict::Reject(400, "only one of PASSWORD-ALGORITHM / PASSWORD-ALGORITHMS present");
            };
            if Some(pas) != srv.algs.as_ref() {
                return Verdict::Reject(400, "PASSWORD-ALGORITHMS differs from the list offered with this nonce");
            }
            if !pas.contains(pa) {
                return Verdict::Reject(400, "PASSWORD-ALGORITHM is not an entry of PASSWORD-ALGORITHMS");
            }
            if pa.id != 1 && pa.id != 2 {
                return Verdict::Reject(400, "unsupported PASSWORD-ALGORITHM");
            }
            key_alg = pa.id;
        }
    }
    if nonce_s != srv.nonce {
        return Verdict::Reject(438, "NONCE is not the current one");
    }
    match (&username, &userhash) {
        (Some((_, RAttr::UserName(u))), _) => {
            if ref_opaque(u) != ref_opaque(user) {
                return Verdict::Reject(401, "unknown USERNAME");
            }
        }
        (_, Some((_, RAttr::UserHash(UserHashSpec::Bytes(h))))) => {
            if h[..] != user_hash_bytes(user, &srv.realm)[..] {
                return Verdict::Reject(401, "USERHASH is not SHA-256(user:realm)");
            }
        }
        _ => return Verdict::Reject(400, "user"),
    }
    match &realm.unwrap().1 {
        RAttr::Realm(r) if *r == srv.realm => {}
        _ => return Verdict::Reject(401, "REALM is not the server's"),
    }
    let key_str = format!("{}:{}:{}", ref_opaque(user), ref_opaque(&srv.realm), ref_opaque(password));
    let key: Vec<u8> = if key_alg == 2 {
        refcrypto::sha256(key_str.as_bytes()).to_vec()
    } else {
        refcrypto::md5(key_str.as_bytes()).to_vec()
    };
    let target = sha.or(mi).unwrap().0;
    if !verify_at(bytes, target, &key) {
        return Verdict::Reject(401, "message integrity does not verify under the user's key");
    }
    Verdict::Accept
}

pub fn check_script(s: &Script, ctx: &Ctx, st: &mut Stats) -> Result<(), String> {
    let cfg = ClientCfg {
        reliable: s.reliable,
        mech: Mech::LongTerm,
        fingerprint: s.fingerprint,
        user: s.user.clone(),
        password: s.password.clone(),
        max_tx: 50,
        ..ClientCfg::default_unreliable()
    };
    let mut sim = match Sim::new(&cfg) {
        Ok(s) => s,
        Err(e) => {
            st.class(&format!("client-not-constructible:{}", crate::codec::reject_class(&e)));
            return Ok(());
        }
    };
    let mut srv = Server::default();
    let mut state_changes = 0u32;
    let judge = |f: Vec<Finding>, i: usize, what: &str, st: &mut Stats| -> Result<bool, String> {
        judge_findings(f, &["C08"], ctx, st).map_err(|(tags, msg)| format!("[{}] exchange {} {}: {}", tags, i, what, msg))
    };
    for (i, ex) in s.exchanges.iter().enumerate() {
        sim.now += 20_000_000;
        if ex.indication {
            let f = sim.step(&Op::Indication { method: ex.method, attrs: ex.app.clone() });
            if !judge(f, i, "indication", st)? {
                return Ok(());
            }
            // indications received from the server are refused as well
            let f = sim.step(&Op::Deliver(Reply {
                target: Target::Unknown([7; 12]),
                body: Body::Indication,
                extra: 1,
                auth: Auth::ValidExpected,
                fp: if s.fingerprint { FpMode::Valid } else { FpMode::Absent },
                dup: false,
                twist: 0,
            }));
            if !judge(f, i, "indication-from-server", st)? {
                return Ok(());
            }
            continue;
        }
        let lt_state_before = sim.lt_state;
        let n_before = sim.reqs.len();
        let f = sim.step(&Op::Send { method: ex.method, attrs: ex.app.clone(), small_buf: false });
        if !judge(f, i, "send", st)? {
            return Ok(());
        }
        if sim.reqs.len() == n_before {
            st.class("send-refused");
            continue;
        }
        let req = sim.reqs.last().unwrap().clone();
        // R3: would a server following RFC 8489 9.2.4 accept this request?
        let verdict = server_check(&srv, &s.user, &s.password, &req.packet);
        let client_has_servers_challenge = srv.challenged
            && srv.conforming
            && !sim.desync
            && sim
                .lt_sess
                .as_ref()
                .map(|c| c.realm == srv.realm && c.nonce == srv.nonce && c.algs == srv.algs)
                .unwrap_or(false);
        let mut lenient_accept = false;
        if client_has_servers_challenge {
            match &verdict {
                Verdict::Accept => st.class("server:accepts-request"),
                Verdict::Reject(code, why) => {
                    // the two recorded deviations, already reported by the packet oracle as known findings
                    let f7 = lt_state_before == LtState::Retry401 && *code == 401 && why.starts_with("no MESSAGE-INTEGRITY");
                    let f8 = lt_state_before == LtState::Retry438 && srv.algs.is_some();
                    if f7 && ctx.is_known("lt-retry-after-401-without-integrity") {
                        st.class("server:lenient-L1(retry-after-401-without-integrity)");
                        lenient_accept = true;
                    } else if f8 && ctx.is_known("lt-retry-after-438-without-password-algorithms") {
                        st.class("server:lenient-L2(retry-after-438-without-algorithms)");
                        lenient_accept = true;
                    } else {
                        return Err(format!(
                            "[C08] exchange {}: a server following RFC 8489 9.2.4 rejects the client's request with {} ({}) although the client holds the server's current challenge (realm {:?}, algorithms {:?}, client state {:?})",
                            i, code, why, srv.realm, srv.algs, lt_state_before
                        ));
                    }
                }
            }
        } else {
            st.class(match &verdict {
                Verdict::Accept => "server:accepts-request(unasserted)",
                Verdict::Reject(..) => "server:rejects-request(expected: no current challenge)",
            });
        }
        let acceptable = verdict == Verdict::Accept || lenient_accept;
        // the server's answer
        let fp = if s.fingerprint { FpMode::Valid } else { FpMode::Absent };
        let last = (sim.awaiting().len().max(1) - 1) as u8;
        let mk = |body: Body, auth: Auth| Reply {
            target: Target::Outstanding(last),
            body,
            extra: 1,
            auth,
            fp: fp.clone(),
            dup: false, twist: 0,
            };
        let beh = match (&ex.beh, acceptable) {
            // an RFC server cannot authenticate an answer to a request it could not key
            (Beh::Natural, false) | (Beh::Stale { .. }, false) | (Beh::OtherError { .. }, false) | (Beh::SuccessWrongKey, false) | (Beh::SuccessOtherAlg, false)
                if !srv.challenged =>
            {
                Beh::Challenge { algs: 0, anon: false, cookie: false, realm: 0, nonce: 0 }
            }
            (b, _) => b.clone(),
        };
        st.class(&format!("behaviour:{}", beh_name(&beh)));
        let reply = match &beh {
            Beh::Challenge { algs, anon, cookie, realm, nonce } => {
                let list = alg_list(*algs);
                let unsupported = matches!(&list, Some(l) if !l.iter().any(|a| a.id == 1 || a.id == 2));
                let algs = if unsupported { 1 } else { *algs };
                // conforming: algorithms offered => nonce cookie with the algorithms bit
                let cookie = *cookie || alg_list(algs).is_some() || *anon;
                mk(Body::Lt401 { algs, anon: *anon, cookie, realm: *realm, nonce: *nonce, drop_realm: false, drop_nonce: false }, Auth::None)
            }
            Beh::NonConforming => mk(Body::Lt401 { algs: 1, anon: false, cookie: false, realm: 1, nonce: 2, drop_realm: false, drop_nonce: false }, Auth::None),
            Beh::UnsupportedAlgs => mk(Body::Lt401 { algs: 4, anon: false, cookie: true, realm: 0, nonce: 1, drop_realm: false, drop_nonce: false }, Auth::None),
            Beh::MissingRealm => mk(Body::Lt401 { algs: 0, anon: false, cookie: false, realm: 0, nonce: 1, drop_realm: true, drop_nonce: false }, Auth::None),
            Beh::MissingNonce => mk(Body::Lt401 { algs: 0, anon: false, cookie: false, realm: 0, nonce: 1, drop_realm: false, drop_nonce: true }, Auth::None),
            Beh::Stale { nonce, with_integrity, other_algs } => {
                let mut r = mk(
                    Body::Lt438 { nonce: *nonce, drop_nonce: false },
                    if *with_integrity && acceptable { Auth::ValidExpected } else { Auth::None },
                );
                if *other_algs {
                    r.twist = 16;
                }
                r
            }
            Beh::Natural => {
                if acceptable {
                    mk(Body::Success, Auth::ValidExpected)
                } else {
                    match verdict {
                        Verdict::Reject(438, _) => mk(Body::Lt438 { nonce: 3, drop_nonce: false }, Auth::None),
                        _ => {
                            // 401 / 400: challenge again with the server's current parameters (or a first challenge)
                            mk(Body::Lt401 { algs: 0, anon: false, cookie: false, realm: 0, nonce: 4, drop_realm: false, drop_nonce: false }, Auth::None)
                        }
                    }
                }
            }
            Beh::SuccessUnauth => mk(Body::Success, Auth::None),
            Beh::SuccessWrongKey => mk(Body::Success, if sim.server_key_for(None).1 { Auth::WrongKeySha } else { Auth::WrongKeyMi }),
            Beh::SuccessOtherAlg => mk(Body::Success, if sim.server_key_for(None).1 { Auth::ValidMi } else { Auth::ValidSha }),
            Beh::OtherError { code, auth } => mk(
                Body::Error(match code % 400 { 101 | 138 => 20, c => c }),
                if *auth && acceptable { Auth::ValidExpected } else { Auth::None },
            ),
            Beh::NoAnswer => {
                continue;
            }
        };
        let bytes = sim.build_reply(&reply);
        let facts = facts_of(&bytes, &[]);
        let sess_before = sim.lt_sess.clone();
        let state_before = sim.lt_state;
        let f = sim.step(&Op::Deliver(reply.clone()));
        if !judge(f, i, &format!("deliver {}", beh_name(&beh)), st)? {
            return Ok(());
        }
        // the server's own state follows its well-formed challenges
        if let Body::Lt401 { drop_realm: false, drop_nonce: false, .. } = &reply.body {
            let supported = facts.algs.as_ref().map(|l| l.iter().any(|a| a.id == 1 || a.id == 2)).unwrap_or(true);
            if supported {
                srv.realm = facts.realm.clone().unwrap_or_default();
                srv.nonce = facts.nonce.clone().unwrap_or_default();
                srv.algs = facts.algs.clone();
                srv.challenged = true;
                srv.conforming = facts.algs.is_none() || facts.cookie_algs_bit;
            }
        }
        if let Body::Lt438 { drop_nonce: false, .. } = &reply.body {
            if srv.challenged {
                srv.nonce = facts.nonce.clone().unwrap_or_default();
                if reply.twist & 16 != 0 {
                    // a 438 that changes the offered list is not something an RFC server does: acceptance is no longer asserted
                    srv.conforming = false;
                }
            }
        }
        if sim.lt_sess != sess_before || sim.lt_state != state_before {
            state_changes += 1;
        }
    }
    // drain: every request must still reach a final outcome
    let f = sim.drain(&[0]);
    judge(f, s.exchanges.len(), "drain", st)?;
    st.class(if s.reliable.is_some() { "transport:reliable" } else { "transport:unreliable" });
    for (b, n) in [(0, "first"), (1, "retry-401"), (2, "retry-438"), (3, "subsequent")] {
        if sim.lt_states_seen >> b & 1 == 1 {
            st.class(&format!("lt-state-visited:{}", n));
        }
    }
    if s.exchanges.len() >= 3 && state_changes >= 2 {
        st.nontrivial(s);
        if st.wants_sample() && s.exchanges.len() <= 6 {
            st.sample(json!({
                "reliable": s.reliable, "fingerprint": s.fingerprint,
                "exchanges": s.exchanges.iter().map(|e| format!("{}{}", if e.indication { "indication;" } else { "" }, beh_name(&e.beh))).collect::<Vec<_>>(),
                "final_client_state": format!("{:?}", sim.lt_state),
            }));
        }
    }
    Ok(())
}

fn beh_name(b: &Beh) -> String {
    match b {
        Beh::Challenge { algs, anon, cookie, .. } => format!("401(algs={},anon={},cookie={})", algs, anon, cookie),
        Beh::Stale { with_integrity, other_algs, .. } => format!("438(integrity={},other-algs={})", with_integrity, other_algs),
        Beh::OtherError { auth, .. } => format!("other-error(auth={})", auth),
        o => format!("{:?}", o),
    }
}

pub fn arb_beh() -> BoxedStrategy<Beh> {
    prop_oneof![
        5 => (0u8..10, any::<bool>(), any::<bool>(), 0u8..4, 0u8..6).prop_map(|(algs, anon, cookie, realm, nonce)| Beh::Challenge { algs, anon, cookie, realm, nonce }),
        3 => (0u8..6, any::<bool>(), prop_oneof![3 => Just(false), 1 => Just(true)]).prop_map(|(nonce, with_integrity, other_algs)| Beh::Stale { nonce, with_integrity, other_algs }),
        8 => Just(Beh::Natural),
        1 => Just(Beh::SuccessUnauth),
        1 => Just(Beh::SuccessWrongKey),
        1 => Just(Beh::SuccessOtherAlg),
        2 => (0u16..400, any::<bool>()).prop_map(|(code, auth)| Beh::OtherError { code, auth }),
        1 => Just(Beh::UnsupportedAlgs),
        1 => Just(Beh::MissingRealm),
        1 => Just(Beh::MissingNonce),
        1 => Just(Beh::NonConforming),
        1 => Just(Beh::NoAnswer),
    ]
    .boxed()
}

pub fn arb_script() -> BoxedStrategy<Script> {
    let ex = (arb_app_attrs(true), arb_beh(), prop_oneof![12 => Just(false), 1 => Just(true)], crate::gen::arb_method())
        .prop_map(|(app, beh, indication, method)| Exchange { app, beh, indication, method });
    (
        prop_oneof![2 => Just(None), 1 => (1u64..60_000).prop_map(Some)],
        any::<bool>(),
        prop_oneof![3 => Just(("user".to_string(), "secret-pass".to_string())), 2 => (crate::gen::arb_keytext(20), crate::gen::arb_keytext(20))],
        proptest::collection::vec(ex, 1..=6),
    )
        .prop_map(|(reliable, fingerprint, (user, password), exchanges)| Script { reliable, fingerprint, user, password, exchanges })
        .boxed()
}

fn hist_prop() -> super::hist::HistProp {
    super::hist::HistProp {
        focus: &["C08"],
        opts: HistOpts { mechs: vec![2], max_ops: 30, deliver_weight: 10, app_attrs: true, ..HistOpts::default() },
        drain: true,
        quick: 60_000,
        thorough: 600_000,
        rule: RULE,
        assumptions: &[],
        nontrivial: |_, s| s.lt_states_seen.count_ones() >= 3,
    }
}

pub fn run(ctx: &Ctx) -> RunResult {
    let mut rr = RunResult::new(RULE);
    rr.assumptions = vec![
        "the reference server is written from RFC 8489 9.2.4; it only asserts acceptance while the client holds the server's current, RFC-conforming challenge".into(),
        "positive expectations only where the property is explicit (401 => retry, 438 => retry with the new nonce, authentic success => delivered, indications refused); the choice among offered algorithms is read from the client's request".into(),
        "recorded deviations (KNOWN_FINDINGS.txt) are excluded by construction through two lenient server branches, each counted".into(),
    ];
    rr.absorb(run_prop(ctx, "script", ctx.pick(100_000, 1_000_000), arb_script, |s, st| check_script(s, ctx, st)));
    let hp = hist_prop();
    let opts = hp.opts.clone();
    rr.absorb(run_prop(ctx, "history", ctx.pick(hp.quick, hp.thorough), move || arb_history(opts.clone()), |h, st| super::hist::check(&hp, ctx, h, st)));
    rr
}

pub fn replay(ctx: &Ctx, check: &str, case: &Value) -> Result<(), String> {
    let mut st = Stats::default();
    match check {
        "script" => {
            let s: Script = serde_json::from_value(case.clone()).map_err(|e| format!("HARNESS-bad case: {}", e))?;
            guard_str(|| check_script(&s, ctx, &mut st))?
        }
        _ => super::hist::replay(ctx, &hist_prop(), check, case),
    }
}
