//! C15 — RTO estimate follows RFC 6298 with Karn's rule and goes stale after 10 minutes.

use crate::report::*;
use crate::sim::*;
use proptest::prelude::*;
use serde::{Deserialize, Serialize};
use serde_json::{json, Value};

pub const RULE: &str = "histories of up to 60 (quick) / 300 (thorough) transactions on an unreliable-transport client with generated initial RTO \
(1 ms-3 s) and granularity (1 us-100 ms): each transaction is sent after a gap (short, or around the 600 s boundary to the nanosecond), \
retransmitted 0-3 times or not at all (Rc 7 / Rm 16, or generated Rc 1-14 and Rm 1-32), answered after 1 ms-40 s or lost (left to time out), without credentials or with short-term / long-term credentials (then answered by 401 / 438 challenges, authenticated success or error responses, or a failing response before the good one), sometimes overlapping the next one; after every \
send the RTO chosen for the new request (hook, and independently the duration of the first notification when nothing else is outstanding) \
is compared with a double-precision RFC 6298 reference (alpha 1/8, beta 1/4, K 4, RTTVAR before SRTT, Karn's rule, reset after more than \
600 s between requests) within 1e-5 relative + 1 us; zero response times are excluded by construction; non-trivial = at least 3 samples \
and at least one Karn-excluded transaction or one staleness gap; distinct = hash of the history";

#[derive(Clone, Debug, Hash, Serialize, Deserialize)]
pub struct Txn {
    pub gap: u64,
    pub retrans: u8,
    pub delay: u64,
    pub lost: bool,
    pub overlap: bool,
    /// how the server answers when credentials are configured: 0 natural (long-term: 401 until a session exists, then
    /// authenticated success), 1 a (new) 401 challenge, 2 a 438, 3 an authenticated error response,
    /// 4 a response failing authentication half-way (ignored), then the natural answer
    #[serde(default)]
    pub kind: u8,
}

#[derive(Clone, Debug, Hash, Serialize, Deserialize)]
pub struct RttCase {
    pub rto_us: u64,
    pub gran_us: u64,
    pub txns: Vec<Txn>,
    /// (Rc, Rm); None = the defaults 7 and 16.  Large values let a lost request stay outstanding for minutes.
    #[serde(default)]
    pub rc_rm: Option<(u32, u32)>,
    /// 0 no credentials, 1 short-term (algorithm learned), 2 long-term: a transaction that ends with a retry
    /// instruction or an authenticated error response completed as well and feeds the estimator
    #[serde(default)]
    pub mech: u8,
}

struct RefRtt {
    srtt: f64,
    rttvar: f64,
    rto: f64,
    configured: f64,
    g: f64,
    first: bool,
}

impl RefRtt {
    fn sample(&mut self, r: f64) {
        if self.first {
            self.srtt = r;
            self.rttvar = r / 2.0;
            self.first = false;
        } else {
            self.rttvar = 0.75 * self.rttvar + 0.25 * (self.srtt - r).abs();
            self.srtt = 0.875 * self.srtt + 0.125 * r;
        }
        self.rto = self.srtt + self.g.max(4.0 * self.rttvar);
    }
    fn reset(&mut self) {
        self.first = true;
        self.srtt = 0.0;
        self.rttvar = 0.0;
        self.rto = self.configured;
    }
}

pub fn check_rtt(c: &RttCase, st: &mut Stats) -> Result<(), String> {
    let cfg = ClientCfg {
        rto_us: c.rto_us,
        gran_us: c.gran_us,
        rc: c.rc_rm.map(|x| x.0).unwrap_or(7),
        rm: c.rc_rm.map(|x| x.1).unwrap_or(16),
        max_tx: 1000,
        mech: match c.mech {
            0 => Mech::None,
            1 => Mech::ShortTerm(None),
            _ => Mech::LongTerm,
        },
        ..ClientCfg::default_unreliable()
    };
    let mut sim = Sim::new(&cfg)?;
    let mut model = RefRtt {
        srtt: 0.0,
        rttvar: 0.0,
        rto: c.rto_us as f64 / 1e6,
        configured: c.rto_us as f64 / 1e6,
        g: c.gran_us as f64 / 1e6,
        first: true,
    };
    let mut last_send: Option<u64> = None;
    let (mut samples, mut karn, mut gaps) = (0u32, 0u32, 0u32);
    // pending responses of overlapping transactions: (tid index, deliver_at)
    let mut pending: Vec<(usize, u64, u8)> = Vec::new();
    // a deviation that belongs to another property (schedule, notifications, outcomes) ends the case without a verdict,
    // as in the history checks: C15 judges the RTO values only
    let foreign = |f: Vec<Finding>| -> Option<String> {
        f.into_iter()
            .find(|x| x.known.is_none() && !x.soft && !x.tags.contains(&"C15"))
            .map(|x| x.tags.join(","))
    };
    for (n, t) in c.txns.iter().enumerate() {
        // kinds 5 and 6: in the middle of the gap the application tries a request with a buffer that is too small; the
        // call fails and must leave no trace (in particular it is not "a request" for the ten-minute rule)
        if t.kind >= 5 && t.gap >= 4 {
            sim.now += t.gap / 2;
            let before = sim.reqs.len();
            let _ = sim.step(&Op::Send { method: 1, attrs: vec![], small_buf: true });
            if sim.reqs.len() != before {
                st.class("small-buffer-send-was-accepted");
            } else {
                st.class("has-refused-send-inside-gap");
            }
            sim.now += t.gap - t.gap / 2;
        } else {
            sim.now += t.gap.max(1);
        }
        // deliver overdue pending responses first
        let now = sim.now;
        let mut due: Vec<(usize, u64, u8)> = pending.iter().copied().filter(|p| p.1 <= now).collect();
        pending.retain(|p| p.1 > now);
        due.sort_by_key(|p| p.1);
        for (i, when, kind) in due {
            let save = sim.now;
            sim.now = when.max(sim.reqs[i].t0 + 1);
            if !deliver(&mut sim, i, kind, 0, &mut model, &mut samples, &mut karn, st)? {
                return Ok(());
            }
            sim.now = save.max(sim.now);
        }
        if let Some(ls) = last_send {
            if sim.now - ls > 600_000_000_000 {
                model.reset();
                gaps += 1;
            }
        }
        last_send = Some(sim.now);
        let before = sim.reqs.len();
        let f = sim.step(&Op::Send { method: 1, attrs: vec![], small_buf: false });
        if let Some(t) = foreign(f) {
            st.class(&format!("diverged-outside-focus:{}", t));
            return Ok(());
        }
        if sim.reqs.len() == before {
            // the request was refused: not a C15 matter
            st.class("send-refused-outside-focus");
            return Ok(());
        }
        let i = sim.reqs.len() - 1;
        let got = sim.reqs[i].rto as f64 / 1e9;
        let tol = 1e-5 * model.rto + 1e-6;
        if (got - model.rto).abs() > tol {
            return Err(format!(
                "transaction {}: RTO chosen for the new request is {:.9} s, RFC 6298 reference gives {:.9} s (samples so far {}, Karn exclusions {}, resets {})",
                n, got, model.rto, samples, karn, gaps
            ));
        }
        // hook-free observation: the first notification when nothing else is outstanding
        if sim.awaiting().len() == 1 {
            if let Some(a) = sim.armed {
                let d = (a - sim.now) as f64 / 1e9;
                // with Rc = 1 the only wait is the final one, Rm x RTO
                let factor = if cfg.rc == 1 { cfg.rm as f64 } else { 1.0 };
                if (d - model.rto * factor).abs() > tol * factor {
                    return Err(format!(
                        "transaction {}: first notification announces {:.9} s, reference RTO is {:.9} s (x{} for the first wait)",
                        n, d, model.rto, factor
                    ));
                }
            }
        }
        for _ in 0..t.retrans.min(3) {
            let f = sim.step(&Op::Timer(TimerKind::Exact));
            if let Some(t) = foreign(f) {
                st.class(&format!("diverged-outside-focus:{}", t));
                return Ok(());
            }
        }
        if t.lost {
            // never answered; counts as no sample.  Either it is simply left behind, or (odd kinds, nothing else in
            // flight) the timers are driven until the client reports its final failure: a transaction that timed out
            // neither feeds nor resets the estimator
            if t.kind % 2 == 1 && pending.is_empty() {
                let mut guard_n = 0;
                while sim.reqs[i].fin.is_none() && guard_n < 64 {
                    guard_n += 1;
                    let f = sim.step(&Op::Timer(TimerKind::Exact));
                    if let Some(t) = foreign(f) {
                        st.class(&format!("diverged-outside-focus:{}", t));
                        return Ok(());
                    }
                }
                if sim.reqs[i].fin.is_some() {
                    st.class("has-request-driven-to-its-final-time-out");
                }
            }
            continue;
        }
        if t.overlap {
            pending.push((i, sim.now + t.delay.max(1), t.kind));
        } else {
            sim.now += t.delay.max(1);
            if !deliver(&mut sim, i, t.kind, t.delay.max(1), &mut model, &mut samples, &mut karn, st)? {
                return Ok(());
            }
        }
    }
    st.class(&format!("samples:{}", match samples { 0..=2 => "0-2", 3..=10 => "3-10", 11..=50 => "11-50", _ => ">50" }));
    if karn > 0 {
        st.class("has-karn-excluded-transaction");
    }
    if gaps > 0 {
        st.class("has-staleness-reset");
    }
    if samples >= 3 && (karn > 0 || gaps > 0) {
        st.nontrivial(c);
        if st.wants_sample() && c.txns.len() <= 8 {
            st.sample(json!({"rto_us": c.rto_us, "gran_us": c.gran_us, "txns": format!("{:?}", c.txns), "final_reference_rto_s": model.rto}));
        }
    }
    Ok(())
}

/// Answer request i now.  Ok(false): the client did not complete the transaction on this answer — the business of the
/// credential properties, not of C15; the case ends without a verdict (class counted).
#[allow(clippy::too_many_arguments)]
fn deliver(sim: &mut Sim, i: usize, kind: u8, delay: u64, model: &mut RefRtt, samples: &mut u32, karn: &mut u32, st: &mut Stats) -> Result<bool, String> {
    if sim.reqs[i].fin.is_some() {
        return Ok(true);
    }
    let t0 = sim.reqs[i].t0;
    let k = sim.awaiting().iter().position(|x| *x == i).unwrap_or(0) as u8;
    let reply = |body: Body, auth: Auth| Reply { target: Target::Outstanding(k), body, extra: 0, auth, fp: FpMode::Absent, dup: false, twist: 0 };
    let challenge = Body::Lt401 { algs: 1, anon: false, cookie: true, realm: 0, nonce: 1, drop_realm: false, drop_nonce: false };
    let long_term = sim.cfg.mech == Mech::LongTerm;
    let has_session = sim.lt_sess.is_some();
    if kind == 4 && sim.cfg.mech != Mech::None && delay >= 2 && (!long_term || has_session) {
        // an answer that fails authentication arrives first and is ignored (unreliable transport)
        let save = sim.now;
        sim.now = save - delay / 2;
        if sim.now > t0 {
            let _ = sim.step(&Op::Deliver(reply(Body::Success, Auth::CorruptMi)));
        }
        sim.now = save;
        if sim.reqs[i].fin.is_some() {
            st.class("reply-handling-outside-focus");
            return Ok(false);
        }
    }
    let r = match (long_term, has_session, kind) {
        (false, _, 3) => reply(Body::Error(120), Auth::ValidExpected),
        (false, _, _) => reply(Body::Success, if sim.cfg.mech == Mech::None { Auth::None } else { Auth::ValidExpected }),
        (true, false, _) | (true, true, 1) => reply(challenge, Auth::None),
        (true, true, 2) => reply(Body::Lt438 { nonce: (i % 5) as u8, drop_nonce: false }, Auth::None),
        (true, true, 3) => reply(Body::Error(120), Auth::ValidExpected),
        (true, true, _) => reply(Body::Success, Auth::ValidExpected),
    };
    let retransmitted = sim.reqs[i].retransmitted;
    let f = sim.step(&Op::Deliver(r));
    if let Some(x) = f.into_iter().find(|x| x.known.is_none() && !x.soft && x.tags.contains(&"C15")) {
        return Err(format!("[{}] {}", x.tags.join(","), x.msg));
    }
    if sim.reqs[i].fin.is_none() {
        st.class("reply-handling-outside-focus");
        return Ok(false);
    }
    st.class(&format!("completed-as:{:?}", sim.reqs[i].fin.unwrap().0));
    if retransmitted {
        *karn += 1;
    } else {
        model.sample((sim.now - t0) as f64 / 1e9);
        *samples += 1;
    }
    Ok(true)
}

pub fn arb_case(max: usize) -> BoxedStrategy<RttCase> {
    (
        prop_oneof![2 => Just(500_000u64), 2 => 1_000u64..=3_000_000, 1 => (1u64..=1000).prop_map(|k| k * 3_000)],
        prop_oneof![2 => Just(1_000u64), 1 => 1u64..=100_000],
        prop_oneof![3 => Just(None), 1 => (1u32..=14, 1u32..=32).prop_map(Some)],
        prop_oneof![3 => Just(0u8), 1 => Just(1u8), 2 => Just(2u8)],
    )
        .prop_flat_map(move |(rto_us, gran_us, rc_rm, mech)| {
            let gap = prop_oneof![
                6 => (1u64..=2_000).prop_map(|ms| ms * 1_000_000),
                1 => Just(600_000_000_000u64),
                1 => Just(600_000_000_001u64),
                1 => Just(599_999_999_999u64),
                1 => (601u64..=1_000).prop_map(|s| s * 1_000_000_000),
                1 => (1u64..600).prop_map(|s| s * 1_000_000_000),
                // just below the limit: with retransmissions or a response time in between, the time since the previous
                // REQUEST exceeds 600 s while the time since the last packet does not
                1 => (590_000u64..600_000).prop_map(|ms| ms * 1_000_000),
            ];
            // response delays: generic ones plus values in a special relation to the configuration (RTO/3 makes the
            // first computed RTO equal the configured one; RTO - G does so when 2R < G; G/2, G, RTO, RTO/2 sit on the
            // max(G, 4*RTTVAR) switch and on the first retransmission)
            let rto_ns = rto_us * 1000;
            let g_ns = gran_us * 1000;
            let specials: Vec<u64> = vec![rto_ns / 3, rto_ns.saturating_sub(g_ns), g_ns / 2, g_ns, rto_ns, rto_ns / 2, rto_ns / 4, g_ns / 8, 2 * g_ns]
                .into_iter()
                .map(|d| d.max(1))
                .collect();
            let delay = prop_oneof![
                5 => (1u64..=400).prop_map(|ms| ms * 1_000_000),
                2 => (1u64..=40_000).prop_map(|ms| ms * 1_000_000),
                1 => 1_000_000u64..=40_000_000_000,
                3 => proptest::sample::select(specials),
            ];
            let txn = (gap, prop_oneof![4 => Just(0u8), 1 => 1u8..=3], delay, prop_oneof![19 => Just(false), 1 => Just(true)], prop_oneof![5 => Just(false), 1 => Just(true)], prop_oneof![4 => Just(0u8), 3 => 1u8..=4, 1 => 5u8..=6])
                .prop_map(|(gap, retrans, delay, lost, overlap, kind)| Txn { gap, retrans, delay, lost, overlap, kind });
            proptest::collection::vec(txn, 1..=max).prop_map(move |txns| RttCase { rto_us, gran_us, txns, rc_rm, mech })
        })
        .boxed()
}

pub fn run(ctx: &Ctx) -> RunResult {
    let mut rr = RunResult::new(RULE);
    rr.assumptions = vec![
        "tolerance 1e-5 relative + 1 us absolute: the implementation computes in single precision".into(),
        "a sample is the time between send_request and the on_buffer_recv that completes the transaction".into(),
    ];
    let max = ctx.pick(60, 300);
    rr.absorb(run_prop(ctx, "rtt", ctx.pick(40_000, 200_000), move || arb_case(max), |c, st| check_rtt(c, st)));
    rr
}

pub fn replay(_ctx: &Ctx, check: &str, case: &Value) -> Result<(), String> {
    let mut st = Stats::default();
    match check {
        "rtt" => {
            let c: RttCase = serde_json::from_value(case.clone()).map_err(|e| format!("HARNESS-bad case: {}", e))?;
            guard_str(|| check_rtt(&c, &mut st))?
        }
        _ => Err(format!("HARNESS-unknown check {}", check)),
    }
}
