#!/bin/bash
# Offline build of the harness (and, when present, the fuzz targets) from files on disk only.
set -eu
cd "$(dirname "$0")/harness"
export CARGO_NET_OFFLINE=true
cargo build --profile verif --offline
cargo build --profile verifrel --offline
echo "setup ok"
