//! C18 — decoder options only filter or decorate; they never change what the bytes mean.

use crate::codec::*;
use crate::conv;
use crate::gen::*;
use crate::mutate::{self, Mutation};
use crate::refcodec::*;
use crate::report::*;
use proptest::prelude::*;
use serde::{Deserialize, Serialize};
use serde_json::{json, Value};
use stun_rs::{StunAttribute, StunMessage};

pub const RULE: &str = "inputs = reference encodings of generated messages in which unknown attribute types and MESSAGE-INTEGRITY / \
MESSAGE-INTEGRITY-SHA256 / FINGERPRINT (correct or faulty) may appear at any position, unmutated (40%) or with 1-3 structure-aware mutations; \
each input is decoded under all 16 option combinations plus the context-less decoder and the results are compared pairwise along every option axis; \
non-trivial = at least one decode succeeds and the input holds an unknown or a non-admitted attribute; distinct = hash of the input bytes";

#[derive(Clone, Debug, Serialize, Deserialize)]
pub struct WildCase {
    pub msg: RMsg,
    pub muts: Vec<Mutation>,
}

pub fn arb_wild_attr() -> BoxedStrategy<RAttr> {
    let fault = prop_oneof![4 => Just(Fault::Correct), 1 => any::<u16>().prop_map(Fault::FlipBit), 1 => Just(Fault::WrongKey)];
    let key = Just(KeySpec::ShortTerm("wild-pass".to_string()));
    prop_oneof![
        40 => arb_plain_attr(GenOpts { raw: true, data_max: 200, padding_max: 300, ..GenOpts::default() }),
        4 => (key.clone(), fault.clone()).prop_map(|(key, fault)| RAttr::Mi(MacSpec::Keyed { key, fault })),
        4 => (key, fault.clone()).prop_map(|(key, fault)| RAttr::MiSha256(MacSpec::Keyed { key, fault })),
        4 => fault.prop_map(|f| RAttr::Fp(FpSpec::Computed(f))),
        // text values LONGER than the decoder accepts (valid UTF-8 of mixed character widths, shifted by 0-3 ASCII
        // characters so that multi-byte characters straddle every offset): the refusal path must be as clean as any other
        1 => (0usize..7, 0usize..4, proptest::sample::select(vec![510usize, 600, 763, 764, 765, 800, 1020, 1100]), proptest::collection::vec(any::<u16>(), 1..8), 0u8..6)
            .prop_map(|(kind, shift, len, seed, alpha)| {
                let mut t = "a".repeat(shift);
                t.push_str(&build_string(len - shift, [1u8, 2, 3, 4, 5, 5][alpha as usize], &seed));
                match kind {
                    0 => RAttr::Software(t),
                    1 => RAttr::ErrorCode { code: 400 + (len % 100) as u16, reason: t },
                    2 => RAttr::AddressErrorCode { family: 1, code: 440, reason: t },
                    3 => RAttr::Realm(t),
                    4 => RAttr::Nonce(t),
                    5 => RAttr::UserName(t),
                    _ => RAttr::Padding(t),
                }
            }),
    ]
    .boxed()
}

pub fn arb_wild_msg() -> BoxedStrategy<RMsg> {
    (arb_method(), 0u8..4, arb_tid(), proptest::collection::vec(arb_wild_attr(), 0..=10))
        .prop_map(|(method, class, tid, attrs)| RMsg { method, class, tid, attrs })
        .boxed()
}

pub fn arb_case() -> BoxedStrategy<WildCase> {
    (
        arb_wild_msg(),
        prop_oneof![2 => Just(Vec::new()), 3 => mutate::arb_mutations()],
    )
        .prop_map(|(msg, muts)| WildCase { msg, muts })
        .boxed()
}

pub fn wild_bytes(c: &WildCase) -> Vec<u8> {
    let enc = ref_encode(&c.msg, &mut Noise::zero());
    if c.muts.is_empty() {
        enc.bytes
    } else {
        mutate::apply(&enc.bytes, &enc.tlv, &c.muts)
    }
}

fn msg_repr(m: &StunMessage) -> String {
    format!(
        "{:#x}/{:?}/{:?}/{:?}",
        m.method().as_u16(),
        m.class(),
        m.transaction_id(),
        m.attributes()
    )
}

fn attr_repr_no_unknown_data(a: &StunAttribute) -> String {
    match a {
        StunAttribute::Unknown(u) => format!("Unknown({:#06x})", u.attribute_type().as_u16()),
        other => format!("{:?}", other),
    }
}

pub fn opts_of(bits: u8, key: &stun_rs::HMACKey) -> DecOpts {
    DecOpts {
        key: if bits & 1 != 0 { Some(key.clone()) } else { None },
        validation: bits & 2 != 0,
        unknown_data: bits & 4 != 0,
        not_ignore: bits & 8 != 0,
        with_ctx: true,
    }
}

/// The option relations on one input; shared with the fuzz target.
pub fn check_relations(bytes: &[u8], st: &mut Stats) -> Result<(), String> {
    let key = conv::lib_key(&KeySpec::ShortTerm("wild-pass".into())).map_err(|e| format!("HARNESS-{}", e))?;
    // a panic is C03's business: the option relations are asserted between decodes that returned
    let mut panicked = false;
    let mut dec = |o: &DecOpts| match guard(|| lib_decode(bytes, o)) {
        Guard::Ok(r) => r,
        _ => {
            panicked = true;
            Err("panic".to_string())
        }
    };
    let res: Vec<Result<(StunMessage, usize), String>> = (0u8..16).map(|b| dec(&opts_of(b, &key))).collect();
    let noctx = dec(&DecOpts::plain());
    if panicked {
        st.class("input:decoder-panicked(not-a-C18-matter)");
        return Ok(());
    }
    let wire = ref_decode(bytes);
    let name = |b: u8| opts_of(b, &key).name();
    let any_ok = res.iter().any(|r| r.is_ok());
    // consumed size identical wherever decoding succeeds
    for (b, r) in res.iter().enumerate() {
        if let Ok((_, n)) = r {
            match &wire {
                Ok(w) if w.total == *n => {}
                Ok(w) => return Err(format!("[{}] consumed {} but the header says {}", name(b as u8), n, w.total)),
                Err(e) => return Err(format!("[{}] decode succeeded but the reference TLV walk fails: {:?}", name(b as u8), e)),
            }
        }
    }
    // R4: a decoder built without a context behaves like one built with the default context
    match (&noctx, &res[0]) {
        (Ok((a, n)), Ok((b, m))) => {
            if n != m || msg_repr(a) != msg_repr(b) {
                return Err("context-less decoder and default-context decoder return different messages".into());
            }
        }
        (Err(_), Err(_)) => {}
        (a, b) => {
            return Err(format!(
                "context-less decoder ok={} but default-context decoder ok={}",
                a.is_ok(),
                b.is_ok()
            ))
        }
    }
    for b in 0u8..16 {
        // R1: validation on and successful => validation off successful with the same message
        if b & 2 != 0 {
            if let Ok((mv, nv)) = &res[b as usize] {
                match &res[(b & !2) as usize] {
                    Ok((m, n)) => {
                        if n != nv || msg_repr(m) != msg_repr(mv) {
                            return Err(format!("[{}] validated decode returns a different message than the unvalidated one", name(b)));
                        }
                    }
                    Err(e) => return Err(format!("[{}] succeeds with validation but fails without: {}", name(b), e)),
                }
                st.class("relation:validation=>novalidation");
            }
        }
        // R5: the key is irrelevant without validation
        if b & 1 != 0 && b & 2 == 0 {
            match (&res[b as usize], &res[(b & !1) as usize]) {
                (Ok((a, n)), Ok((c, m))) => {
                    if n != m || msg_repr(a) != msg_repr(c) {
                        return Err(format!("[{}] key changes the result although validation is off", name(b)));
                    }
                }
                (Err(_), Err(_)) => {}
                _ => return Err(format!("[{}] key changes success although validation is off", name(b))),
            }
        }
        // R2: unknown data only decorates
        if b & 4 != 0 {
            match (&res[b as usize], &res[(b & !4) as usize]) {
                (Ok((with, _)), Ok((without, _))) => {
                    if with.attributes().len() != without.attributes().len() {
                        return Err(format!("[{}] unknown_data changes the number of attributes", name(b)));
                    }
                    let w = wire.as_ref().map_err(|e| format!("reference walk failed: {:?}", e))?;
                    let types: Vec<u16> = w.attrs.iter().map(|a| a.typ).collect();
                    let adm = ref_admitted(&types);
                    let positions: Vec<usize> = if b & 8 != 0 {
                        (0..types.len()).collect()
                    } else {
                        (0..types.len()).filter(|i| adm[*i]).collect()
                    };
                    if positions.len() != with.attributes().len() {
                        return Err(format!(
                            "[{}] {} attributes decoded, expected {} from the wire",
                            name(b),
                            with.attributes().len(),
                            positions.len()
                        ));
                    }
                    for (j, (x, y)) in with.attributes().iter().zip(without.attributes()).enumerate() {
                        if attr_repr_no_unknown_data(x) != attr_repr_no_unknown_data(y) {
                            return Err(format!("[{}] attribute {} differs when unknown data is kept", name(b), j));
                        }
                        if let (StunAttribute::Unknown(ux), StunAttribute::Unknown(uy)) = (x, y) {
                            let raw = &w.attrs[positions[j]];
                            if ux.attribute_type().as_u16() != raw.typ {
                                return Err(format!("[{}] unknown attribute {} type mismatch", name(b), j));
                            }
                            if ux.attribute_data() != Some(&raw.value[..]) {
                                return Err(format!(
                                    "[{}] unknown attribute {} data {:?} != raw wire value {}",
                                    name(b),
                                    j,
                                    ux.attribute_data().map(hex),
                                    hex(&raw.value)
                                ));
                            }
                            if uy.attribute_data().is_some() {
                                return Err(format!("[{}] unknown attribute {} keeps data although the option is off", name(b), j));
                            }
                            st.class("relation:unknown-data-is-raw-value");
                        }
                    }
                }
                (Err(_), Err(_)) => {}
                _ => return Err(format!("[{}] unknown_data changes success", name(b))),
            }
        }
        // R3': "the default result is a subsequence of the result with the ordering rule disabled" says in particular that
        // the latter exists whenever the former does (validation aside: the opt-out decoder validates more attributes)
        if b & 8 != 0 && b & 2 == 0 {
            if let (Ok(_), Err(e)) = (&res[(b & !8) as usize], &res[b as usize]) {
                return Err(format!("[{}] the default-order decode succeeds but the decode with the ordering rule disabled fails: {}", name(b), e));
            }
        }
        // R3: with the ordering rule disabled every wire attribute is returned in order; default is the admitted subsequence
        if b & 8 != 0 {
            if let Ok((all, _)) = &res[b as usize] {
                let w = wire.as_ref().map_err(|e| format!("reference walk failed: {:?}", e))?;
                if all.attributes().len() != w.attrs.len() {
                    return Err(format!(
                        "[{}] ordering rule disabled: {} attributes decoded, {} on the wire",
                        name(b),
                        all.attributes().len(),
                        w.attrs.len()
                    ));
                }
                for (j, a) in all.attributes().iter().enumerate() {
                    if a.attribute_type().as_u16() != w.attrs[j].typ {
                        return Err(format!("[{}] attribute {} has type {:#x}, wire {:#x}", name(b), j, a.attribute_type().as_u16(), w.attrs[j].typ));
                    }
                }
                if let Ok((def, _)) = &res[(b & !8) as usize] {
                    let types: Vec<u16> = w.attrs.iter().map(|a| a.typ).collect();
                    let adm = ref_admitted(&types);
                    let exp: Vec<String> = all
                        .attributes()
                        .iter()
                        .enumerate()
                        .filter(|(i, _)| adm[*i])
                        .map(|(_, a)| format!("{:?}", a))
                        .collect();
                    let got: Vec<String> = def.attributes().iter().map(|a| format!("{:?}", a)).collect();
                    if exp != got {
                        return Err(format!(
                            "[{}] default result is not the admitted subsequence of the full list ({} vs {} attributes)",
                            name(b),
                            got.len(),
                            exp.len()
                        ));
                    }
                    st.class("relation:default-is-admitted-subsequence");
                }
            }
        }
    }
    if any_ok {
        if let Ok(w) = &wire {
            let types: Vec<u16> = w.attrs.iter().map(|a| a.typ).collect();
            let adm = ref_admitted(&types);
            let unknown = types.iter().any(|t| !is_known_type(*t));
            let nonadm = adm.iter().any(|a| !*a);
            if unknown {
                st.class("input:has-unknown-attribute");
            }
            if nonadm {
                st.class("input:has-non-admitted-attribute");
            }
            if unknown || nonadm {
                st.nontrivial(&bytes);
            }
        }
        st.class("input:decodes-under-some-option");
    } else {
        st.class("input:rejected-under-all-options");
    }
    Ok(())
}

pub fn check_case(c: &WildCase, st: &mut Stats) -> Result<(), String> {
    let bytes = wild_bytes(c);
    st.class(if c.muts.is_empty() { "unmutated" } else { "mutated" });
    for m in &c.muts {
        st.class(&format!("mut:{}", mutate::kind(m)));
    }
    check_relations(&bytes, st)?;
    if st.wants_sample() && c.msg.attrs.len() >= 3 {
        st.sample(json!({
            "attrs": c.msg.attrs.iter().map(|a| a.kind_name()).collect::<Vec<_>>(),
            "mutations": c.muts.iter().map(mutate::kind).collect::<Vec<_>>(),
            "input_len": bytes.len(),
        }));
    }
    Ok(())
}

pub fn run(ctx: &Ctx) -> RunResult {
    let mut rr = RunResult::new(RULE);
    rr.assumptions = vec![
        "library messages are compared through their Debug rendering (the types do not implement PartialEq)".into(),
        "raw values of unknown attributes come from the harness's own TLV walk".into(),
    ];
    rr.absorb(run_prop(ctx, "options", ctx.pick(400_000, 4_000_000), arb_case, |c, st| check_case(c, st)));
    rr
}

pub fn replay(_ctx: &Ctx, check: &str, case: &Value) -> Result<(), String> {
    let mut st = Stats::default();
    match check {
        "options" => {
            let c: WildCase = serde_json::from_value(case.clone()).map_err(|e| format!("HARNESS-bad case: {}", e))?;
            guard_str(|| check_case(&c, &mut st))?
        }
        "options-bytes" => {
            let b = unhex(case.as_str().unwrap_or(""));
            guard_str(|| check_relations(&b, &mut st))?
        }
        _ => Err(format!("HARNESS-unknown check {}", check)),
    }
}
