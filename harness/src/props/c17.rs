//! C17 — a rejected buffer changes nothing.
use super::hist::*;
use crate::report::*;
use crate::sim::hgen::HistOpts;
#[allow(unused_imports)]
use crate::sim::*;
use serde_json::Value;

pub fn prop() -> HistProp {
    HistProp {
        focus: &["C17"],
        opts: HistOpts { max_ops: 40, deliver_weight: 8, hostile: 4, ..HistOpts::default() },
        drain: true,
        quick: 150_000,
        thorough: 2_000_000,
        rule: "operation histories generated as one value (sends with application attributes, indications, clock advances, timer calls exact/early/late, replies to outstanding/finished/unknown ids with every authentication and fingerprint variant, 401/438 challenges, garbage and mutated buffers) run against a real client and the reference tracker in lock-step under a virtual clock; whenever on_buffer_recv returns an error (undecodable or truncated bytes, a request, a response for an unknown or finished id, bad or missing fingerprint, failed authentication that is to be ignored, both-attribute responses, refused indications, long-term responses before any challenge) events() must be empty and the snapshot (outstanding ids and retransmission state, timers, RTT estimate, credential state, learned algorithm) identical to the one before, except the documented violated marker of that very transaction; the continuation (including the final drain) is checked against the tracker that ignored the buffer; non-trivial = a rejection while at least one request is outstanding, followed by at least 2 further operations; distinct = hash of the history",
        assumptions: &["continuation invariants of C05/C06/C11/C12 stay evaluated; a deviation there ends the case without an alarm unless it is a C17 finding"],
        nontrivial: |h, s| s.rejected_while_outstanding > 0 && h.ops.len() >= 4,
    }
}
pub fn run(ctx: &Ctx) -> RunResult {
    super::hist::run(ctx, &prop())
}
pub fn replay(ctx: &Ctx, check: &str, case: &Value) -> Result<(), String> {
    super::hist::replay(ctx, &prop(), check, case)
}
