#!/bin/bash
# convenience: run every claimed check at a tier (default quick); prints one summary line per property
TIER="${1:-quick}"
FROM="${2:-C00}"   # optional: start at this property id
cd "$(dirname "$0")"
rc=0
for id in $(python3 -c "import json;print(' '.join(c['property_id'] for c in json.load(open('MANIFEST.json'))['checks']))"); do
  [[ "$id" < "$FROM" ]] && continue
  out=$(./verif.sh "$id" "$TIER" 2>&1); r=$?
  echo "$out" | grep -E "VIOLATION|HELD|VIOLATED|INCONCLUSIVE" | tail -2
  [ $r -ne 0 ] && rc=$r
done
exit $rc
