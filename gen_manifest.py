#!/usr/bin/env python3
"""Regenerates MANIFEST.json from the table below (kept in one place so it is always schema-valid)."""
import json, subprocess, sys

H = "model-based (stateful) property-based testing: generated operation histories run against the real client and a reference tracker/model in lock-step under a virtual clock (proptest; the thorough tier adds a coverage-guided libFuzzer campaign over byte-encoded histories, target fz_history, with the same judge)"

CLAIMED = {
 "C01": dict(
   technique="property-based testing (proptest): generated messages, encode/decode round trip against an independent reference TLV walk and reference HMAC/CRC",
   text="Generated-input search: 40k (quick) / 1M (thorough) messages built by construction over all 38 attribute kinds, boundary lengths and 7 legal tails are encoded by the library with three paddings/buffer slacks and decoded again; method, class, id, every attribute value and the three sizes are compared. Held means no counterexample in the explored set; failures shrink to a minimal message saved as a replay file.",
   note="Trusted: proptest, the harness's own reference codec/crypto (self-tested against RFC vectors at every start), precis-profiles for the OpaqueString alphabet self-test. Constructors arbitrate what is within documented limits. One feature configuration.",
   ref="3/C01"),
 "C02": dict(
   technique="differential testing against an independent reference codec (proptest + exhaustive enumeration of small domains) with metamorphic noise on ignorable bits",
   text="Every generated message's library encoding is compared byte for byte with a reference encoder written from the RFCs, and reference encodings whose padding/reserved bits are set (all ones, random, each bit alone) must decode to the same values, with and without validation. The (method,class) interleaving, all 16-bit type fields, all error codes, all ICMP type/code pairs and every transaction-id bit in the XOR are enumerated completely; the RFC 5769 / RFC 8489 B.1 vectors are fixed seeds checked under the reference crypto.",
   note="Trusted: the harness's reference codec/crypto (RFC interpretations listed in the evidence assumptions), proptest. Held = no disagreement on the explored set.",
   ref="3/C02"),
 "C09": dict(
   technique="exhaustive enumeration of all 87,381 attribute-kind sequences x correctness masks x 16 decoder option combinations against the ordering rule as stated",
   text="All sequences of up to 8 attributes over {ordinary, MI, SHA256, FINGERPRINT} are rendered by the reference encoder with all-correct, every single-incorrect and one pseudo-random MAC/CRC mask and decoded under every option combination; the decoded list must be exactly the admitted subsequence, validation must fail exactly when an admitted verifiable attribute is wrong (or lacks a key), and the agent's own iterator must admit the same positions. The sequence space named by the property is covered completely (exhaustive: true).",
   note="Exhaustive only over the abstract kind sequences; concrete attribute values are fixed representatives. Trusted: reference encoder/crypto, the verif-hooks accessor.",
   ref="3/C09"),
 "C14": dict(
   technique="property-based testing with exhaustive buffer-length sweeps per generated message plus enumerated size-targeted messages around 65,535 attribute bytes",
   text="Each generated message is encoded into every buffer length 0..=needed+8 (sampled above 600 bytes) with three prefills and compared with the reference bytes; success iff the buffer suffices, returned size exact, tail untouched, no panic. Messages with 65,500..65,600, ~70,000 and ~131,080 attribute bytes in several shapes must encode correctly when they fit the 16-bit length and return an error otherwise. The harness is built with overflow checks so wrap-arounds panic, and the size/byte oracle also catches silent wraps.",
   note="Trusted: reference encoder. Nothing is asserted about partial writes after an error.",
   ref="3/C14"),
 "C18": dict(
   technique="metamorphic property-based testing: the same generated/mutated input decoded under all 16 option combinations, results compared pairwise per option axis",
   text="Generated messages with unknown and mis-ordered verifiable attributes, unmutated or with 1-3 structure-aware mutations, are decoded under every option combination and the context-less decoder; validation-success implies identical unvalidated result, unknown-data only adds exactly the raw wire value, the unordered result is every wire attribute in order with the default result its admitted subsequence, no-context equals default context, key irrelevant without validation.",
   note="Library messages are compared through Debug renderings; raw values come from the harness's own TLV walk.",
   ref="3/C18"),
 "C04": dict(
   technique="property-based testing with exhaustive single-bit fault injection over the protected bytes, against an independent HMAC/key-derivation implementation",
   category="fault_enumeration",
   text="For each generated message with an integrity tail the key bytes and the MAC are compared with a reference derivation (own MD5/SHA-1/SHA-256/HMAC), the untampered message must be accepted with validation (also with the other integrity attribute and FINGERPRINT after it), and then every bit of every protected byte and of the MAC is flipped (exhaustive up to 200 protected bytes, 512 sampled positions above) and wrong keys differing in one character / algorithm / mechanism are tried; none may be accepted as authenticated.",
   note="Accepted = validated decode returns the attribute, or its validate() over get_input_text is true. Collisions ignored. Key strings from OpaqueString-stable alphabets.",
   ref="3/C04"),
 "C10": dict(
   technique="property-based testing with exhaustive single-bit / single-byte fault injection against an independent CRC-32, plus model-based client histories (thorough tier adds the libFuzzer targets fz_client and fz_history)",
   category="fault_enumeration",
   text="Codec: the wire CRC of every generated message equals the reference CRC-32 of the prefix with adjusted length XOR 0x5354554e; every single-bit fault at every bit and four byte substitutions at every byte (exhaustive up to 300 bytes) must never be accepted as carrying a valid FINGERPRINT. Client: histories of a fingerprint-configured client under every credential mechanism check that every emitted packet ends with a valid FINGERPRINT and that nothing is delivered or completed by a message whose FINGERPRINT is absent, corrupted or misplaced.",
   note="Trusted: reference CRC (self-tested), reference codec, client model in sim/.",
   ref="3/C10"),
 "C16": dict(
   technique="property-based testing with exhaustive 2-cut / 3-cut chunking enumeration per generated stream against a trivial reference splitter",
   text="Streams of 1-3 reference-encoded packets (optionally with a bad header or an oversized packet at position k, or a truncated trailing packet) are fed whole, byte by byte, with generated multi-cuts and with all 2-cut (<=120/300 bytes) and 3-cut (<=48/80 bytes) chunkings including empty chunks; packets, consumed counts, missing-byte reports and the error (type, size, consumed, buffer handed back) must equal the reference splitter's for every chunking.",
   note="The controller loop (fresh decoder after each packet, remainder of the chunk re-fed) is the harness's reading of the API.",
   ref="3/C16"),
 "C19": dict(
   technique="exhaustive enumeration of u16/u8 domains plus property-based testing of constructors/accessors and model-based clone/mutate sequences under catch_unwind",
   text="All u16 and u8 values go through every small-domain conversion with results compared to the RFC bit layouts; generated Unicode strings (controls, combining marks, format characters, astral, lengths around 508/509/763) through every string and key constructor; nonce cookies with a multi-byte character at each byte offset 0..16; every attribute kind through all as_/is_/expect_ accessors; clone-then-mutate sequences on PasswordAlgorithms, UnknownAttributes and StunAttributes against a Vec model. A panic located in library code is a violation.",
   note="expect_* only on the matching variant. Panic attribution by source location.",
   ref="3/C19"),
 "C03": dict(
   technique="structure-aware mutation fuzzing with semantic oracles (proptest; libFuzzer targets in the thorough tier): decoder under 17 configurations, hostile client histories, chunked reassembly",
   text="Mutated reference encodings and random/framed byte strings up to 64 KiB are decoded under all option combinations under catch_unwind; success implies size = 20+length <= input and the same result for the prefix alone or followed by junk; get_input_text never panics. Histories dominated by garbage and mutated replies (addressed to outstanding transactions, half re-fingerprinted, hostile NONCE/REALM/PASSWORD-ALGORITHMS in 401/438) run against clients of every mechanism, after which a fresh exchange must still complete. Mutated streams are fed to the reassembler in generated chunkings.",
   note="Panic attribution by source location. Termination is observed as return; a watchdog turns a hang into exit 2 (inconclusive).",
   ref="3/C03"),
 "C05": dict(technique=H+"; history invariant 'at most one final outcome, then silence' plus hook-observed table membership",
   text="20k (quick) / 400k (thorough) histories of up to 40 operations with 1-8 concurrent requests, timers exact/early/late beyond the deadline, replies lost, duplicated, reordered, late, failing authentication or addressed to unknown ids, on both transports and all mechanisms, each followed by a notification-driven drain. Per transaction id: at most one final event, nothing emitted afterwards, late/duplicate replies rejected, responses delivered only for awaiting ids, finished ids absent from the transaction table.",
   note="Trusted: the tracker (observed finals), the read-only hooks, reference codec for replies.", ref="3/C05"),
 "C06": dict(technique=H+"; RFC 8489 slot/deadline schedule model with exact nanosecond arithmetic",
   text="Timer-heavy histories over Rc 1-10, Rm 1-32, RTO 1 ms-3 s (or reliable timeouts), 1-8 requests sharing the timer, calls exact/early/late up to beyond the deadline and learned RTO values: every (re)transmission must happen in a call at or after an unused slot t0+(2^k-1)RTO, at most one per call and Rc in total, byte-identical; a due slot must be served; failure exactly at the first call at or after the deadline; armed expiry equals the model's (late calls skip slots, never shift the deadline). Plus the fixed default schedule 0..31500 ms / 39500 ms.",
   note="The per-request RTO is read through the hook at send time (C15 checks that value).", ref="3/C06"),
 "C07": dict(technique=H+"; short-term verdict model with independent HMAC verification of every sent and delivered message",
   text="Short-term clients (algorithm preset or learned) on both transports receive per-transaction reply sequences drawn from valid MI, valid SHA256, both, none, corrupted MAC, wrong password, non-agreed algorithm, duplicates, for responses, error responses and indications, interleaved with timers and further requests. Only-if direction for every delivery (verifies under the password with the reference HMAC, agreed algorithm, never both), if-direction for single valid replies, failure handling per transport, final reason protection-violated iff a failing response was seen, and USERNAME + verifying integrity on every emitted packet.",
   note="Marker after a both-attribute response unconstrained.", ref="3/C07"),
 "C08": dict(technique="model-based property-based testing against a reference RFC 8489 9.2.4 server (differential acceptance oracle) plus generic long-term histories (proptest; thorough tier adds the libFuzzer target fz_history)",
   text="Scripts of 1-6 exchanges: the reference server answers each client request with a generated behaviour (401 variants, 438, authenticated / unauthenticated / wrongly keyed success, other errors, malformed and non-conforming challenges, silence); every client request must satisfy the packet oracle (no credentials before a challenge; afterwards USERNAME or USERHASH, REALM, latest NONCE, offered PASSWORD-ALGORITHMS + a supported PASSWORD-ALGORITHM, verifying integrity of the right kind, never the password) and be accepted by the reference server while the client holds its current conforming challenge; deliveries must verify under the session key; 401/438 must yield Retry, indications are refused. Two recorded deviations are excluded by construction through lenient server branches and printed as KNOWN-FINDING.",
   note="Known findings F7/F8 listed in KNOWN_FINDINGS.txt; any other rejection by the reference server is a violation.", ref="3/C08, Appendix B"),
 "C11": dict(technique=H+"; notification accuracy against hook-observed timer entries and a bounded notification-following controller run for sufficiency",
   text="After every send_request/on_timeout the notification must exist iff a request is awaiting, name a request with the earliest pending deadline and give max(0, deadline-now) exactly; at least one timer entry per awaiting request (hook); deadlines are the model's. Each history ends with a simulated controller that only follows notifications (late by generated amounts): every request must be final by the controller's first call at or after its RFC deadline, and no timer may remain. Liveness is thus decided as a finite run because the harness owns the clock.",
   note="Up to 8 concurrent requests.", ref="3/C11"),
 "C12": dict(technique=H+"; counting oracle (sent minus finalised) with snapshot equality on refusal",
   text="Limits 0-4 and 10 with histories mixing sends, indications, every reply kind, rejected buffers and expiries (thorough adds 400-operation random walks): send_request returns the maximum-outstanding error exactly when sent-minus-finalised equals the limit, a refusal produces no event and leaves the snapshot unchanged, indications never touch the table, finished transactions leave it.",
   note="Final outcomes are counted from observed events.", ref="3/C12"),
 "C13": dict(technique=H+"; every emitted packet parsed by the reference codec and compared with a composition model",
   text="Application attribute lists of any kinds and order with duplicates and pre-populated credential/integrity/fingerprint attributes, all mechanisms x fingerprint x credential states: each packet must be a request/indication of the asked method with a never-seen id, carry the application's attributes one per type in first-insertion order minus mechanism-owned types, then the mechanism's attributes, then at most one MI, SHA256, FINGERPRINT in that order, each verifying under the reference crypto; retransmissions byte-identical.",
   note="Long-term decoration deviations F7/F8 are C08 known findings, not C13 alarms.", ref="3/C13"),
 "C15": dict(technique="model-based property-based testing against a double-precision RFC 6298 reference estimator",
   text="Histories of up to 60/300 transactions with response delays 1 ms-40 s, retransmitted or not, lost, overlapping, with idle gaps around 600 s to the nanosecond and generated initial RTO/granularity: after every send the RTO of the new request (hook and, independently, the first notification) must equal the reference within 1e-5 relative + 1 us.",
   note="Zero response times excluded by construction.", ref="3/C15"),
 "C17": dict(technique=H+"; snapshot equality before/after every rejected buffer and continuation against the model that ignored it",
   text="Whenever on_buffer_recv returns an error, events() must be empty and the hook snapshot (transactions and their retransmission state, timers, RTT estimate, credential state incl. learned algorithm) equal to the previous one, except the documented violated marker of that transaction; the remaining history and the final drain are checked against the tracker that treated the rejection as a no-op.",
   note="Rejected buffer kinds: undecodable, truncated, request, unknown/finished id, bad/missing fingerprint, ignored authentication failure, both-attributes, refused indication, long-term response without challenge, mutated replies.", ref="3/C17"),
}
WIP = "check not yet built in this round (work in progress, see DESIGN.md section 3)"
ALL = ["C%02d" % i for i in range(1, 20)]

def main():
    hooks_commit = subprocess.run(["git", "-C", "/repo", "log", "--format=%H", "--grep=verif-hooks", "-n", "1"], capture_output=True, text=True).stdout.strip()
    m = {
      "version": 1,
      "setup_cmd": "./setup.sh",
      "hooks": {
        "guard": "cargo feature `verif-hooks` on crate stun-agent (default off)",
        "enable": "the harness crate depends on /repo/stun-agent with features = [\"verif-hooks\"]; every check rebuilds with `cargo build --profile verif --offline` in /verif/harness",
        "baseline_off_cmd": "cd /repo && cargo test --workspace --no-fail-fast --offline",
        "source_commits": [hooks_commit] if hooks_commit else [],
        "add_only": True,
      },
      "engines": [
        {"name": "rustun-verif", "path": "harness", "serves_properties": sorted(CLAIMED), "kind_free_text": "Rust binary: proptest TestRunner (fixed seed from VERIF_SEED, 16 shards), exhaustive enumerators, reference codec/crypto/model oracles; built in profile verif (debug assertions and overflow checks on) and, for C01/C02/C14, also in profile verifrel (both off) for a second pass"},
      ],
      "checks": [],
      "not_applicable": [],
      "notes": "Exit codes: 0 held, 1 violation (VIOLATION line + replay file under /verif/replays), 2 inconclusive (build failure, self-test failure, harness panic). KNOWN_FINDINGS.txt lists recorded findings and repaired defects.",
    }
    for pid in ALL:
        if pid in CLAIMED:
            c = CLAIMED[pid]
            m["checks"].append({
              "property_id": pid,
              "quick_cmd": "./verif.sh %s quick" % pid,
              "thorough_cmd": "./verif.sh %s thorough" % pid,
              "evidence_file": "/verif/evidence/%s.json" % pid,
              "replay_cmd_template": "./verif.sh %s --replay {path}" % pid,
              "engine": "rustun-verif",
              "level_claimed": {"category": c.get("category", "exploration"), "text": c["text"], "design_ref": "DESIGN.md section " + c["ref"]},
              "level_note": c["note"],
              "technique": c["technique"],
            })
        else:
            m["not_applicable"].append({"property_id": pid, "reason": WIP})
    json.dump(m, open("/verif/MANIFEST.json", "w"), indent=1)
    try:
        import jsonschema
        jsonschema.validate(m, json.load(open("/root/.vp/MANIFEST.schema.json")))
        print("MANIFEST.json valid,", len(m["checks"]), "checks")
    except ImportError:
        print("written (jsonschema not importable here)")

main()
