//! rustun-verif: property-based testing and fuzzing harness for sancane/rustun (see /verif/DESIGN.md).
pub mod codec;
pub mod conv;
pub mod corpus;
pub mod fuzzgen;
pub mod gen;
pub mod mutate;
pub mod props;
pub mod refcodec;
pub mod refcrypto;
pub mod report;
pub mod sim;
