//! C13 — every packet the client emits is well formed and retransmissions are identical.
use super::hist::*;
use crate::report::*;
use crate::sim::hgen::HistOpts;
#[allow(unused_imports)]
use crate::sim::*;
use serde_json::Value;

pub fn prop() -> HistProp {
    HistProp {
        focus: &["C13"],
        opts: HistOpts { max_ops: 30, app_attrs: true, send_weight: 8, hostile: 0, ..HistOpts::default() },
        drain: false,
        quick: 150_000,
        thorough: 2_000_000,
        rule: "operation histories generated as one value (sends with application attributes, indications, clock advances, timer calls exact/early/late, replies to outstanding/finished/unknown ids with every authentication and fingerprint variant, 401/438 challenges, garbage and mutated buffers) run against a real client and the reference tracker in lock-step under a virtual clock; application attribute lists of 0-6 attributes of any kind, in any order, with duplicates and with USERNAME/USERHASH/REALM/NONCE/PASSWORD-ALGORITHM(S)/MESSAGE-INTEGRITY/SHA256/FINGERPRINT supplied by the application; every emitted packet is parsed with the reference codec: asked method and class, never-seen transaction id, application attributes one per type in first-insertion order minus those the mechanism owns, then the mechanism's attributes, then at most one MI, SHA256, FINGERPRINT in that order, each verifying with the reference crypto; retransmissions byte-identical; non-trivial = a request whose application list collides with a mechanism-owned type or contains integrity/fingerprint; distinct = hash of the history",
        assumptions: &["with no mechanism configured an application-supplied integrity attribute must verify under the application's own key"],
        nontrivial: |h, _| h.ops.iter().any(|o| matches!(o, Op::Send { attrs, .. } | Op::Indication { attrs, .. } if attrs.iter().any(|a| matches!(a.type_code(), 0x0006 | 0x0008 | 0x0014 | 0x0015 | 0x001C | 0x001D | 0x001E | 0x8002 | 0x8028)))),
    }
}
pub fn run(ctx: &Ctx) -> RunResult {
    super::hist::run(ctx, &prop())
}
pub fn replay(ctx: &Ctx, check: &str, case: &Value) -> Result<(), String> {
    super::hist::replay(ctx, &prop(), check, case)
}
