use rustun_verif::report::{self, Ctx, Tier};
use rustun_verif::{props, refcrypto};

fn usage() -> ! {
    eprintln!("usage: rustun-verif <ID> quick|thorough | <ID> --replay <file>");
    std::process::exit(2);
}

fn main() {
    let args: Vec<String> = std::env::args().collect();
    if args.len() < 3 {
        usage();
    }
    report::install_panic_hook();
    if let Err(e) = refcrypto::self_test().and_then(|_| rustun_verif::gen::alphabet_self_test()) {
        eprintln!("INCONCLUSIVE: {}", e);
        std::process::exit(2);
    }
    let prop = args[1].clone();
    if prop == "corpus" {
        // rustun-verif corpus <target> <dir>
        let seed = std::env::var("VERIF_SEED").ok().and_then(|s| s.parse().ok()).unwrap_or(1u64);
        match rustun_verif::corpus::write(&args[2], std::path::Path::new(args.get(3).map(|s| s.as_str()).unwrap_or("corpus")), seed) {
            Ok(n) => {
                println!("wrote {} seed files", n);
                std::process::exit(0);
            }
            Err(e) => {
                eprintln!("INCONCLUSIVE: {}", e);
                std::process::exit(2);
            }
        }
    }
    if prop == "hist-json" {
        // rustun-verif hist-json <ID> <fuzzer input> <out.json>: the history a fz_history input decodes to, as a replay file
        if args.len() < 5 {
            usage();
        }
        let data = std::fs::read(&args[3]).unwrap_or_default();
        let mut u = arbitrary::Unstructured::new(&data);
        match rustun_verif::fuzzgen::history_from(&mut u) {
            Ok(h) => {
                let check = if args[2] == "C03" { "client" } else { "history" };
                let body = serde_json::json!({"property": args[2], "check": check, "reason": "libFuzzer artifact (fz_history)", "case": h});
                if std::fs::write(&args[4], serde_json::to_string_pretty(&body).unwrap()).is_err() {
                    eprintln!("INCONCLUSIVE: cannot write {}", args[4]);
                    std::process::exit(2);
                }
                std::process::exit(0);
            }
            Err(e) => {
                eprintln!("INCONCLUSIVE: input does not decode to a history: {}", e);
                std::process::exit(2);
            }
        }
    }
    if args[2] == "--replay" {
        if args.len() < 4 {
            usage();
        }
        let mut ctx = Ctx::new(&prop, Tier::Quick);
        // known findings listed in KNOWN_FINDINGS.txt are tolerated in replays exactly as in generated runs
        ctx.strict = std::env::var("VERIF_STRICT").is_ok();
        let text = match std::fs::read_to_string(&args[3]) {
            Ok(t) => t,
            Err(e) => {
                eprintln!("INCONCLUSIVE: cannot read replay file: {}", e);
                std::process::exit(2);
            }
        };
        let v: serde_json::Value = match serde_json::from_str(&text) {
            Ok(v) => v,
            Err(e) => {
                eprintln!("INCONCLUSIVE: bad replay file: {}", e);
                std::process::exit(2);
            }
        };
        let check = v["check"].as_str().unwrap_or("").to_string();
        // a case is replayed with the log facade off and, if it passes, once more with its maximum level at Trace
        let mut outcome = props::replay(&ctx, &check, &v["case"]);
        if let Some(Ok(())) = outcome {
            log::set_max_level(log::LevelFilter::Trace);
            outcome = props::replay(&ctx, &check, &v["case"]);
            log::set_max_level(log::LevelFilter::Off);
        }
        match outcome {
            None => {
                eprintln!("INCONCLUSIVE: unknown property/check {} {}", prop, check);
                std::process::exit(2);
            }
            Some(Ok(())) => {
                println!("REPLAY-PASS property={} check={} file={}", prop, check, args[3]);
                std::process::exit(0);
            }
            Some(Err(msg)) => {
                if msg.starts_with("HARNESS-") {
                    eprintln!("INCONCLUSIVE: {}", msg);
                    std::process::exit(2);
                }
                println!("reason: {}", msg);
                println!("VIOLATION property={} replay={}", prop, args[3]);
                std::process::exit(1);
            }
        }
    }
    let tier = match args[2].as_str() {
        "quick" => Tier::Quick,
        "thorough" => Tier::Thorough,
        _ => usage(),
    };
    let ctx = Ctx::new(&prop, tier);
    // watchdog: a run that does not finish is inconclusive (exit 2), never a violation
    let limit = std::env::var("VERIF_WATCHDOG_S")
        .ok()
        .and_then(|s| s.parse::<u64>().ok())
        .unwrap_or(if tier == Tier::Quick { 900 } else { 6 * 3600 });
    std::thread::spawn(move || {
        std::thread::sleep(std::time::Duration::from_secs(limit));
        eprintln!("INCONCLUSIVE: watchdog: run did not finish within {} s", limit);
        std::process::exit(2);
    });
    let mut rr = match props::run(&ctx) {
        Some(r) => r,
        None => {
            eprintln!("INCONCLUSIVE: unknown property {}", prop);
            std::process::exit(2);
        }
    };
    let mut code = 0;
    // harness failures are never violations
    if rr.violations.iter().any(|v| v.reason.starts_with("HARNESS-")) {
        for v in &rr.violations {
            eprintln!("INCONCLUSIVE: {} ({})", v.reason, v.check);
        }
        std::process::exit(2);
    }
    // VERIF_SECOND_PASS: the same check run by the binary of another build profile; its verdict counts, its evidence
    // is that of the main pass
    let second_pass = std::env::var("VERIF_SECOND_PASS").is_ok();
    if let Ok(v) = std::env::var("VERIF_REL_PASS") {
        rr.stats.notes.push(format!(
            "the same check (quick scale, same seed) was first run by the binary of build profile verifrel (no debug assertions, no overflow checks): {}",
            v
        ));
    }
    if !second_pass {
        if let Err(e) = report::write_evidence(&ctx, &rr) {
            eprintln!("INCONCLUSIVE: cannot write evidence: {}", e);
            std::process::exit(2);
        }
    }
    for k in ctx.known.iter().filter(|k| k.property == prop && !second_pass) {
        let hits = rr.stats.known_hits.get(&k.signature).copied().unwrap_or(0);
        println!(
            "KNOWN-FINDING: property={} signature={} {} (hit {} times in this run)",
            prop, k.signature, k.text, hits
        );
    }
    for v in &rr.violations {
        let path = report::write_replay(&ctx, v);
        println!("check: {}", v.check);
        println!("reason: {}", report::truncate(&v.reason, 2000));
        println!("VIOLATION property={} replay={}", prop, path.display());
        code = 1;
    }
    println!(
        "{} {} tier={:?} seed={} evaluations={} distinct_nontrivial={} wall={:.1}s",
        prop,
        if code == 0 { "HELD" } else { "VIOLATED" },
        tier,
        ctx.seed,
        rr.stats.evaluations,
        rr.stats.nontrivial.len(),
        ctx.start.elapsed().as_secs_f64()
    );
    std::process::exit(code);
}
