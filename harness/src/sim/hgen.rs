//! proptest strategies for client configurations and operation histories.

use super::types::*;
use crate::gen::*;
use crate::refcodec::*;
use proptest::prelude::*;

#[derive(Clone, Debug)]
pub struct HistOpts {
    /// 0 none, 1 short-term, 2 long-term (weights by repetition)
    pub mechs: Vec<u8>,
    pub max_ops: usize,
    pub reliable_weight: u32,
    pub vary_rto: bool,
    pub small_limits: bool,
    pub app_attrs: bool,
    pub hostile: u32,
    pub fingerprint: Option<bool>,
    pub timer_weight: u32,
    pub deliver_weight: u32,
    pub send_weight: u32,
}

impl Default for HistOpts {
    fn default() -> Self {
        HistOpts {
            mechs: vec![0, 0, 1, 1, 2, 2],
            max_ops: 40,
            reliable_weight: 1,
            vary_rto: true,
            small_limits: false,
            app_attrs: false,
            hostile: 1,
            fingerprint: None,
            timer_weight: 5,
            deliver_weight: 6,
            send_weight: 5,
        }
    }
}

pub fn arb_cfg(o: &HistOpts) -> BoxedStrategy<ClientCfg> {
    let mech = proptest::sample::select(o.mechs.clone()).prop_flat_map(|m| match m {
        0 => Just(Mech::None).boxed(),
        1 => prop_oneof![Just(Mech::ShortTerm(None)), Just(Mech::ShortTerm(Some(false))), Just(Mech::ShortTerm(Some(true)))].boxed(),
        _ => Just(Mech::LongTerm).boxed(),
    });
    let reliable = if o.reliable_weight == 0 {
        Just(None).boxed()
    } else {
        prop_oneof![
            3 => Just(None),
            o.reliable_weight => prop_oneof![Just(39_500u64), 1u64..=60_000].prop_map(Some),
        ]
        .boxed()
    };
    let (rto, gran, rm, rc) = if o.vary_rto {
        (
            prop_oneof![2 => Just(500_000u64), 2 => 1_000u64..=3_000_000, 1 => Just(1_000u64), 1 => Just(3_000_000u64)].boxed(),
            prop_oneof![2 => Just(1_000u64), 1 => 1u64..=100_000].boxed(),
            prop_oneof![2 => Just(16u32), 2 => 1u32..=32].boxed(),
            prop_oneof![2 => Just(7u32), 3 => 1u32..=10].boxed(),
        )
    } else {
        (Just(500_000u64).boxed(), Just(1_000u64).boxed(), Just(16u32).boxed(), Just(7u32).boxed())
    };
    let max_tx = if o.small_limits {
        prop_oneof![8 => 0usize..=4, 2 => Just(10usize), 1 => 11usize..=14].boxed()
    } else {
        prop_oneof![6 => Just(10usize), 2 => 1usize..=4, 1 => 11usize..=40].boxed()
    };
    let fp = match o.fingerprint {
        Some(b) => Just(b).boxed(),
        None => any::<bool>().boxed(),
    };
    let cred = prop_oneof![
        4 => Just(("user".to_string(), "secret-pass".to_string())),
        2 => (arb_keytext(24), arb_keytext(24)),
        1 => (arb_keytext(24), arb_password()),
        // blanks at the ends belong to the password (OpaqueString keeps ASCII spaces)
        1 => proptest::sample::select(vec![" secret", "secret ", "  two  ", " "]).prop_map(|p| ("user".to_string(), p.to_string())),
    ];
    (reliable, rto, gran, rm, rc, mech, fp, max_tx, cred)
        .prop_map(|(reliable, rto_us, gran_us, rm, rc, mech, fingerprint, max_tx, (user, password))| ClientCfg {
            reliable,
            rto_us,
            gran_us,
            rm,
            rc,
            mech,
            fingerprint,
            max_tx,
            user,
            password,
        })
        .boxed()
}

/// Application attributes: small values, with deliberate collisions with the mechanisms' own attributes.
pub fn arb_app_attrs(on: bool) -> BoxedStrategy<Vec<RAttr>> {
    if !on {
        return prop_oneof![3 => Just(Vec::new()), 1 => Just(vec![RAttr::Software("app".into())])].boxed();
    }
    let key = Just(KeySpec::ShortTerm("app-key".into()));
    let small = GenOpts {
        data_max: 40,
        padding_max: 40,
        ..GenOpts::default()
    };
    let colliding = prop_oneof![
        Just(RAttr::UserName("app-user".into())),
        Just(RAttr::Realm("app-realm".into())),
        Just(RAttr::Nonce("app-nonce".into())),
        Just(RAttr::UserHash(UserHashSpec::Names { user: "a".into(), realm: "b".into() })),
        Just(RAttr::PasswordAlgorithm(RAlg { id: 1, params: vec![] })),
        Just(RAttr::PasswordAlgorithms(vec![RAlg { id: 2, params: vec![] }])),
        key.clone().prop_map(|key| RAttr::Mi(MacSpec::Keyed { key, fault: Fault::Correct })),
        key.prop_map(|key| RAttr::MiSha256(MacSpec::Keyed { key, fault: Fault::Correct })),
        Just(RAttr::Fp(FpSpec::Computed(Fault::Correct))),
        // decoded variants (as copied from a received message): not encodable, must be replaced where the client owns the type
        Just(RAttr::Fp(FpSpec::Wire(vec![1, 2, 3, 4]))),
        Just(RAttr::Mi(MacSpec::Wire(vec![7; 20]))),
        Just(RAttr::MiSha256(MacSpec::Wire(vec![9; 32]))),
        Just(RAttr::Software("first".into())),
        Just(RAttr::Software("second".into())),
        Just(RAttr::Priority(1)),
        Just(RAttr::Priority(2)),
    ];
    proptest::collection::vec(prop_oneof![3 => arb_plain_attr(small).prop_filter("short strings", |a| {
        crate::codec::var_len(a).map(|l| l < 200).unwrap_or(true)
    }), 3 => colliding], 0..=6)
    .boxed()
}

pub fn arb_reply() -> BoxedStrategy<Reply> {
    let target = prop_oneof![
        7 => any::<u8>().prop_map(Target::Outstanding),
        2 => any::<u8>().prop_map(Target::Finished),
        1 => any::<[u8; 12]>().prop_map(Target::Unknown),
    ];
    let body = prop_oneof![
        6 => Just(Body::Success),
        2 => (0u16..400).prop_map(Body::Error),
        1 => prop_oneof![Just(100u16), Just(120u16), Just(0u16), Just(101u16 + 37)].prop_map(Body::Error),
        4 => (0u8..10, any::<bool>(), any::<bool>(), 0u8..4, 0u8..9, prop_oneof![9 => Just(false), 1 => Just(true)], prop_oneof![9 => Just(false), 1 => Just(true)])
            .prop_map(|(algs, anon, cookie, realm, nonce, drop_realm, drop_nonce)| Body::Lt401 { algs, anon, cookie, realm, nonce, drop_realm, drop_nonce }),
        2 => (0u8..9, prop_oneof![9 => Just(false), 1 => Just(true)]).prop_map(|(nonce, drop_nonce)| Body::Lt438 { nonce, drop_nonce }),
        1 => Just(Body::Indication),
        1 => Just(Body::Request),
    ];
    let auth = prop_oneof![
        6 => Just(Auth::ValidExpected),
        2 => Just(Auth::ValidMi),
        2 => Just(Auth::ValidSha),
        3 => Just(Auth::None),
        1 => Just(Auth::Both),
        1 => Just(Auth::CorruptMi),
        1 => Just(Auth::CorruptSha),
        1 => Just(Auth::WrongKeyMi),
        1 => Just(Auth::WrongKeySha),
    ];
    let fp = prop_oneof![6 => Just(FpMode::Valid), 3 => Just(FpMode::Absent), 1 => Just(FpMode::Corrupt), 1 => Just(FpMode::Misplaced), 1 => Just(FpMode::CorruptThenValid)];
    (target, body, 0u8..4, auth, fp, prop_oneof![5 => Just(false), 1 => Just(true)], prop_oneof![5 => Just(0u8), 2 => 0u8..128, 1 => Just(34u8), 1 => Just(64u8)])
        .prop_map(|(target, body, extra, auth, fp, dup, twist)| Reply { target, body, extra, auth, fp, dup, twist })
        .boxed()
}

pub fn arb_dt() -> BoxedStrategy<u64> {
    prop_oneof![
        4 => (1u64..=200).prop_map(|ms| ms * 1_000_000),
        2 => 0u64..=40_000_000_000,
        1 => Just(600_000_000_000u64),
        1 => Just(600_000_000_001u64),
        1 => (590u64..=620).prop_map(|s| s * 1_000_000_000),
        1 => 1u64..1_000_000,
    ]
    .boxed()
}

pub fn arb_op(o: &HistOpts) -> BoxedStrategy<Op> {
    let late = prop_oneof![
        2 => Just(1_000_000u64),
        3 => (1u64..=5_000).prop_map(|ms| ms * 1_000_000),
        2 => (1u64..=120).prop_map(|s| s * 1_000_000_000),
        1 => 1u64..1_000_000,
    ];
    let timer = prop_oneof![
        4 => Just(TimerKind::Exact),
        1 => late.clone().prop_map(TimerKind::Early),
        4 => late.prop_map(TimerKind::Late),
        2 => (1u8..=160).prop_map(TimerKind::LateHalfRtos),
        1 => Just(TimerKind::Now),
    ];
    let app = arb_app_attrs(o.app_attrs);
    let hostile = o.hostile;
    prop_oneof![
        o.send_weight => (arb_method(), app.clone(), prop_oneof![19 => Just(false), 1 => Just(true)])
            .prop_map(|(method, attrs, small_buf)| Op::Send { method, attrs, small_buf }),
        1 => (arb_method(), app).prop_map(|(method, attrs)| Op::Indication { method, attrs }),
        2 => arb_dt().prop_map(Op::Advance),
        1 => (1u8..=64).prop_map(Op::AdvanceHalfRtos),
        o.timer_weight => timer.prop_map(Op::Timer),
        o.deliver_weight => arb_reply().prop_map(Op::Deliver),
        hostile => prop_oneof![
            proptest::collection::vec(any::<u8>(), 0..64).prop_map(Op::DeliverRaw),
            Just(Op::DeliverRaw(vec![0, 1, 0, 0, 0x21, 0x12, 0xa4, 0x42, 1, 2, 3, 4, 5, 6, 7, 8, 9, 10, 11, 12])),
            Just(Op::DeliverRaw(crate::refcodec::vectors::SAMPLE_IPV4_RESPONSE.to_vec())),
            Just(Op::DeliverRaw(crate::refcodec::vectors::SAMPLE_IPV4_RESPONSE[..40].to_vec())),
        ],
        hostile => (arb_reply(), crate::mutate::arb_mutations(), any::<bool>())
            .prop_map(|(reply, muts, fix_fp)| Op::DeliverMutated { reply, muts, fix_fp }),
    ]
    .boxed()
}

pub fn arb_history(o: HistOpts) -> BoxedStrategy<History> {
    let ops = proptest::collection::vec(arb_op(&o), 1..=o.max_ops);
    let lates = proptest::collection::vec(
        prop_oneof![3 => Just(0u64), 2 => (1u64..=3_000).prop_map(|ms| ms * 1_000_000), 1 => (1u64..=100).prop_map(|s| s * 1_000_000_000)],
        1..6,
    );
    // with credentials configured, half of the histories start with a scripted exchange that brings the client
    // into a deeper credential state (long-term: challenged / authenticated; short-term: algorithm learned)
    (arb_cfg(&o), ops, lates, 0u8..8, 0u8..10, any::<bool>())
        .prop_map(|(cfg, mut ops, lates, warm, algs, anon)| {
            let fp = if cfg.fingerprint { FpMode::Valid } else { FpMode::Absent };
            let send = Op::Send { method: 1, attrs: vec![], small_buf: false };
            let reply = |body: Body, auth: Auth| {
                Op::Deliver(Reply { target: Target::Outstanding(0), body, extra: 1, auth, fp: fp.clone(), dup: false, twist: 0 })
            };
            let mut pre: Vec<Op> = Vec::new();
            match (&cfg.mech, warm) {
                (Mech::LongTerm, 1..=3) if cfg.max_tx > 0 => {
                    let algs = if algs == 4 { 1 } else { algs };
                    pre.push(send.clone());
                    pre.push(Op::Advance(20_000_000));
                    pre.push(reply(Body::Lt401 { algs, anon, cookie: true, realm: warm, nonce: algs, drop_realm: false, drop_nonce: false }, Auth::None));
                    if warm >= 2 {
                        pre.push(send.clone());
                        pre.push(Op::Advance(20_000_000));
                        pre.push(reply(Body::Success, Auth::ValidExpected));
                    }
                    if warm == 3 {
                        pre.push(send.clone());
                        pre.push(Op::Advance(20_000_000));
                        pre.push(reply(Body::Lt438 { nonce: algs, drop_nonce: false }, Auth::None));
                    }
                }
                // more than ten requests in flight, each answered by a reply that fails authentication (then ignored on
                // unreliable transport): per-transaction state must not be capped at the DEFAULT limit of ten
                (Mech::ShortTerm(_), 3..=7) | (Mech::LongTerm, 4..=7) if cfg.max_tx >= 11 && cfg.reliable.is_none() => {
                    let n = cfg.max_tx.min(24);
                    for _ in 0..n {
                        pre.push(send.clone());
                    }
                    pre.push(Op::Advance(20_000_000));
                    for i in 0..n {
                        pre.push(Op::Deliver(Reply {
                            target: Target::Outstanding(i as u8),
                            body: Body::Success,
                            extra: 0,
                            auth: if i % 2 == 0 { Auth::CorruptMi } else { Auth::None },
                            fp: fp.clone(),
                            dup: false,
                            twist: 0,
                        }));
                    }
                }
                (Mech::ShortTerm(None), 1..=2) if cfg.max_tx > 0 => {
                    pre.push(send.clone());
                    pre.push(Op::Advance(20_000_000));
                    pre.push(reply(Body::Success, if warm == 1 { Auth::ValidMi } else { Auth::ValidSha }));
                }
                _ => {}
            }
            if !pre.is_empty() {
                pre.append(&mut ops);
                ops = pre;
            }
            History { cfg, ops, lates }
        })
        .boxed()
}
