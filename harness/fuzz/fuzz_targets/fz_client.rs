#![no_main]
//! C03 + C17 + C05 + C10: a hostile buffer handed to a client in one of the prepared credential states,
//! addressed to an outstanding transaction, optionally with a recomputed FINGERPRINT.
use libfuzzer_sys::fuzz_target;
use rustun_verif::fuzzgen;

fuzz_target!(|data: &[u8]| {
    if let Err(e) = fuzzgen::client_case(data) {
        if !e.starts_with("HARNESS-") {
            panic!("VIOLATION {}", e);
        }
    }
});
