//! Decoding of fuzzer bytes into structured cases (arbitrary::Unstructured, no derive) for the libFuzzer targets.

use crate::gen::{build_string, tail_of};
use crate::refcodec::*;
use crate::sim::*;
use arbitrary::{Result as AResult, Unstructured};

fn text(u: &mut Unstructured, min: usize, limit: usize, alphas: &[u8]) -> AResult<String> {
    let sel: u8 = u.arbitrary()?;
    let len = match sel % 8 {
        0 => min,
        1 => limit,
        2 => limit.saturating_sub(1).max(min),
        3 | 4 => u.int_in_range(min..=limit)?,
        _ => u.int_in_range(min..=(min + 12).min(limit))?,
    };
    let alpha = alphas[u.arbitrary::<u8>()? as usize % alphas.len()];
    let n: usize = u.int_in_range(1..=6)?;
    let mut seed = Vec::new();
    for _ in 0..n {
        seed.push(u.arbitrary::<u16>()?);
    }
    Ok(build_string(len, alpha, &seed))
}

fn addr(u: &mut Unstructured) -> AResult<RAddr> {
    let port: u16 = u.arbitrary()?;
    Ok(match u.arbitrary::<u8>()? % 4 {
        0 => RAddr::V4(u.arbitrary()?, port),
        1 => RAddr::V6(u.arbitrary()?, port),
        2 => RAddr::V6(crate::gen::special_v6(u.arbitrary()?, u.arbitrary()?, u.arbitrary()?), port),
        _ => RAddr::V4(crate::gen::special_v4(u.arbitrary()?), port),
    })
}

fn bytes(u: &mut Unstructured, max: usize) -> AResult<Vec<u8>> {
    let n: usize = u.int_in_range(0..=max)?;
    Ok(u.bytes(n.min(u.len()))?.to_vec())
}

fn alg(u: &mut Unstructured) -> AResult<RAlg> {
    let id = match u.arbitrary::<u8>()? % 4 {
        0 => 1,
        1 => 2,
        2 => 0,
        _ => u.arbitrary()?,
    };
    Ok(RAlg { id, params: bytes(u, 9)? })
}

pub fn attr_from(u: &mut Unstructured) -> AResult<RAttr> {
    const STABLE: &[u8] = &[0, 0, 1, 2, 3, 4, 5];
    const ANY: &[u8] = &[0, 1, 2, 3, 4, 5, 6];
    let code = |u: &mut Unstructured| -> AResult<u16> { Ok(300 + u.arbitrary::<u16>()? % 400) };
    Ok(match u.arbitrary::<u8>()? % 35 {
        0 => RAttr::MappedAddress(addr(u)?),
        1 => RAttr::AlternateServer(addr(u)?),
        2 => RAttr::OtherAddress(addr(u)?),
        3 => RAttr::ResponseOrigin(addr(u)?),
        4 => RAttr::XorMappedAddress(addr(u)?),
        5 => RAttr::XorPeerAddress(addr(u)?),
        6 => RAttr::XorRelayedAddress(addr(u)?),
        7 => RAttr::UserName(text(u, 1, 508, STABLE)?),
        8 => RAttr::Realm(text(u, 1, 509, &[0])?.replace(['"', '\\'], "r")),
        9 => RAttr::Nonce(text(u, 0, 509, &[0])?.replace(['"', '\\'], "n")),
        10 => RAttr::Software(text(u, 0, 509, ANY)?),
        11 => RAttr::Padding(text(u, 0, 1200, ANY)?),
        12 => RAttr::ErrorCode { code: code(u)?, reason: text(u, 0, 509, ANY)? },
        13 => {
            let n: usize = u.int_in_range(0..=8)?;
            let mut v: Vec<u16> = Vec::new();
            for _ in 0..n {
                let t: u16 = u.arbitrary()?;
                if !v.contains(&t) {
                    v.push(t);
                }
            }
            RAttr::UnknownAttributes(v)
        }
        14 => RAttr::UserHash(UserHashSpec::Names { user: text(u, 1, 40, STABLE)?, realm: text(u, 1, 40, STABLE)? }),
        15 => RAttr::PasswordAlgorithm(alg(u)?),
        16 => {
            let n: usize = u.int_in_range(0..=4)?;
            let mut l = Vec::new();
            for _ in 0..n {
                l.push(alg(u)?);
            }
            RAttr::PasswordAlgorithms(l)
        }
        17 => RAttr::IceControlled(u.arbitrary()?),
        18 => RAttr::IceControlling(u.arbitrary()?),
        19 => RAttr::Priority(u.arbitrary()?),
        20 => RAttr::UseCandidate,
        21 => RAttr::ChannelNumber(u.arbitrary()?),
        22 => RAttr::LifeTime(u.arbitrary()?),
        23 => RAttr::Data(bytes(u, 300)?),
        24 => RAttr::RequestedAddressFamily(1 + u.arbitrary::<u8>()? % 2),
        25 => RAttr::AdditionalAddressFamily(1 + u.arbitrary::<u8>()? % 2),
        26 => RAttr::EvenPort(u.arbitrary()?),
        27 => RAttr::DontFragment,
        28 => RAttr::RequestedTransport(if u.arbitrary::<bool>()? { 17 } else { 0 }),
        29 => RAttr::ReservationToken(u.arbitrary()?),
        30 => RAttr::AddressErrorCode { family: 1 + u.arbitrary::<u8>()? % 2, code: code(u)?, reason: text(u, 0, 509, ANY)? },
        31 => RAttr::Icmp { typ: u.arbitrary::<u8>()? % 128, code: u.arbitrary::<u16>()? % 512, data: u.arbitrary()? },
        32 => RAttr::MobilityTicket(bytes(u, 300)?),
        33 => RAttr::ChangeRequest { ip: u.arbitrary()?, port: u.arbitrary()? },
        _ => RAttr::ResponsePort(u.arbitrary()?),
    })
}

pub fn msg_from(u: &mut Unstructured) -> AResult<RMsg> {
    let method = u.arbitrary::<u16>()? & 0xFFF;
    let class = u.arbitrary::<u8>()? & 3;
    let tid: [u8; 12] = u.arbitrary()?;
    let n: usize = u.int_in_range(0..=10)?;
    let mut attrs = Vec::new();
    for _ in 0..n {
        attrs.push(attr_from(u)?);
    }
    let k = u.arbitrary::<u8>()? % 8;
    let key = if u.arbitrary::<bool>()? {
        KeySpec::ShortTerm(text(u, 1, 30, &[0, 1, 3])?)
    } else {
        KeySpec::LongTerm {
            user: text(u, 1, 20, &[0, 1, 3])?,
            realm: "example.org".into(),
            password: text(u, 1, 20, &[0, 1, 3])?,
            alg: 1 + u.arbitrary::<u16>()? % 2,
        }
    };
    attrs.extend(tail_of(k, &key));
    Ok(RMsg { method, class, tid, attrs })
}

/// One hostile buffer against a client prepared in the state selected by the first two bytes.
pub fn client_case(data: &[u8]) -> Result<(), String> {
    if data.len() < 3 {
        return Ok(());
    }
    let (s0, s1) = (data[0], data[1]);
    let mech = match s0 % 5 {
        0 => Mech::None,
        1 => Mech::ShortTerm(None),
        2 => Mech::ShortTerm(Some(false)),
        3 => Mech::ShortTerm(Some(true)),
        _ => Mech::LongTerm,
    };
    let cfg = ClientCfg {
        mech: mech.clone(),
        fingerprint: s0 & 0x20 != 0,
        reliable: if s0 & 0x40 != 0 { Some(5_000) } else { None },
        ..ClientCfg::default_unreliable()
    };
    let mut sim = Sim::new(&cfg).map_err(|e| format!("HARNESS-{}", e))?;
    let fp = if cfg.fingerprint { FpMode::Valid } else { FpMode::Absent };
    let send = |sim: &mut Sim| {
        sim.now += 10_000_000;
        let _ = sim.step(&Op::Send { method: 1, attrs: vec![], small_buf: false });
    };
    let reply = |sim: &mut Sim, body: Body, auth: Auth| {
        sim.now += 3_000_000;
        let last = (sim.awaiting().len().max(1) - 1) as u8;
        let _ = sim.step(&Op::Deliver(Reply { target: Target::Outstanding(last), body, extra: 1, auth, fp: fp.clone(), dup: false, twist: 0 }));
    };
    send(&mut sim);
    let depth = s1 % 4;
    if mech == Mech::LongTerm && depth >= 1 {
        reply(&mut sim, Body::Lt401 { algs: s1 >> 2 & 3, anon: s1 & 0x10 != 0, cookie: true, realm: 0, nonce: 1, drop_realm: false, drop_nonce: false }, Auth::None);
        send(&mut sim);
        if depth >= 2 {
            reply(&mut sim, Body::Success, Auth::ValidExpected);
            send(&mut sim);
        }
    } else if depth >= 2 {
        send(&mut sim);
    }
    let mut hostile = data[2..].to_vec();
    if s1 & 0x40 != 0 && hostile.len() >= 20 {
        if let Some(i) = sim.awaiting().last() {
            let tid = sim.reqs[*i].tid;
            hostile[8..20].copy_from_slice(&tid);
            hostile[4..8].copy_from_slice(&MAGIC.to_be_bytes());
            hostile[0] &= 0x3F;
        }
    }
    if s1 & 0x80 != 0 {
        hostile = append_valid_fp(&hostile);
    }
    sim.now += 1_000_000;
    let findings = match crate::report::guard(|| sim.do_deliver(&hostile, false)) {
        crate::report::Guard::Ok(f) => f,
        crate::report::Guard::LibPanic(m) => return Err(format!("C03 client panicked on a received buffer: {}", m)),
        crate::report::Guard::HarnessPanic(m) => return Err(format!("HARNESS-{}", m)),
    };
    for f in findings {
        if f.known.is_none() && f.tags.iter().any(|t| ["C17", "C05", "C10"].contains(t)) {
            return Err(format!("{} {}", f.tags.join(","), f.msg));
        }
    }
    match crate::report::guard(|| sim.drain(&[0])) {
        crate::report::Guard::Ok(_) => Ok(()),
        crate::report::Guard::LibPanic(m) => Err(format!("C03 client panicked in a timer call after a hostile buffer: {}", m)),
        crate::report::Guard::HarnessPanic(m) => Err(format!("HARNESS-{}", m)),
    }
}
