//! C04 — message integrity accepts exactly the untampered message under the right key.

use crate::codec::*;
use crate::conv;
use crate::gen::*;
use crate::refcodec::*;
use crate::report::*;
use proptest::prelude::*;
use serde::{Deserialize, Serialize};
use serde_json::{json, Value};
use stun_rs::attributes::stun::{MessageIntegrity, MessageIntegritySha256};
use stun_rs::StunAttribute;

pub const RULE: &str = "generated messages (0-6 ordinary attributes of any kind, then one of the tails MI / SHA256 / MI+SHA256, each with or without \
FINGERPRINT) under short-term and long-term (MD5, SHA-256) keys over generated user/realm/password strings; for each message: key bytes and MAC \
compared with the reference derivation, validated decode, then a fault walk flipping every bit of every protected byte and of the MAC (exhaustive \
up to 200 protected bytes, 512 sampled positions above) plus wrong keys differing in one character / algorithm / mechanism; one evaluation = one \
message or one injected fault; non-trivial = a fault or wrong key applied to a message with at least one padded ordinary attribute; distinct = (message, fault)";

#[derive(Clone, Debug, Serialize, Deserialize)]
pub struct MiCase {
    pub prefix: Vec<RAttr>,
    pub key: KeySpec,
    /// 1 MI, 2 SHA256, 3 MI+SHA256
    pub tail: u8,
    pub fp: bool,
    pub method: u16,
    pub class: u8,
    pub tid: [u8; 12],
    pub sample_seed: u64,
}

pub fn arb_case() -> BoxedStrategy<MiCase> {
    (
        proptest::collection::vec(
            arb_plain_attr(GenOpts {
                data_max: 60,
                padding_max: 80,
                ..GenOpts::default()
            }),
            0..=6,
        ),
        arb_key(),
        1u8..=3,
        any::<bool>(),
        arb_method(),
        0u8..4,
        arb_tid(),
        any::<u64>(),
    )
        .prop_map(|(prefix, key, tail, fp, method, class, tid, sample_seed)| MiCase {
            prefix,
            key,
            tail,
            fp,
            method,
            class,
            tid,
            sample_seed,
        })
        .boxed()
}

fn build(c: &MiCase) -> RMsg {
    let mut attrs = c.prefix.clone();
    let k = |fault| MacSpec::Keyed {
        key: c.key.clone(),
        fault,
    };
    if c.tail & 1 != 0 {
        attrs.push(RAttr::Mi(k(Fault::Correct)));
    }
    if c.tail & 2 != 0 {
        attrs.push(RAttr::MiSha256(k(Fault::Correct)));
    }
    if c.fp {
        attrs.push(RAttr::Fp(FpSpec::Computed(Fault::Correct)));
    }
    RMsg {
        method: c.method,
        class: c.class,
        tid: c.tid,
        attrs,
    }
}

fn change_one_char(s: &str, salt: u64) -> String {
    let chars: Vec<char> = s.chars().collect();
    if chars.is_empty() {
        return "x".into();
    }
    let i = (salt as usize) % chars.len();
    let mut out: Vec<char> = chars.clone();
    out[i] = if chars[i] == 'q' { 'r' } else { 'q' };
    out.into_iter().collect()
}

fn wrong_keys(k: &KeySpec, salt: u64) -> Vec<(&'static str, KeySpec)> {
    match k {
        KeySpec::ShortTerm(p) => vec![
            ("password-one-char", KeySpec::ShortTerm(change_one_char(p, salt))),
            (
                "other-mechanism",
                KeySpec::LongTerm {
                    user: "u".into(),
                    realm: "r".into(),
                    password: p.clone(),
                    alg: 1,
                },
            ),
        ],
        KeySpec::LongTerm {
            user,
            realm,
            password,
            alg,
        } => {
            let mk = |u: &str, r: &str, p: &str, a: u16| KeySpec::LongTerm {
                user: u.into(),
                realm: r.into(),
                password: p.into(),
                alg: a,
            };
            vec![
                ("user-one-char", mk(&change_one_char(user, salt), realm, password, *alg)),
                ("realm-one-char", mk(user, &change_one_char(realm, salt), password, *alg)),
                ("password-one-char", mk(user, realm, &change_one_char(password, salt), *alg)),
                ("other-algorithm", mk(user, realm, password, 3 - *alg)),
                ("other-mechanism", KeySpec::ShortTerm(password.clone())),
            ]
        }
        KeySpec::Raw(_) => vec![],
    }
}

/// Is `bytes` accepted as authenticated by attribute type `typ` under `key`?
/// = validated decode succeeds and the result carries that attribute, or the attribute's own validate() is true.
fn authenticated(bytes: &[u8], typ: u16, key: &stun_rs::HMACKey) -> (bool, &'static str) {
    let opts = DecOpts {
        key: Some(key.clone()),
        validation: true,
        with_ctx: true,
        ..DecOpts::default()
    };
    let is = |a: &StunAttribute| a.attribute_type().as_u16() == typ;
    let mut outcome = "decode-error";
    // a panic on damaged input is not an acceptance (it is a C03 violation, reported by that check)
    let lib_decode = |b: &[u8], o: &DecOpts| match guard(|| crate::codec::lib_decode(b, o)) {
        Guard::Ok(r) => r,
        _ => Err("panic".to_string()),
    };
    if let Ok((m, _)) = lib_decode(bytes, &opts) {
        if m.attributes().iter().any(is) {
            return (true, "validated-decode-accepts");
        }
        outcome = "attribute-absent";
    }
    if let Ok((m, _)) = lib_decode(bytes, &DecOpts::plain()) {
        if let Some(a) = m.attributes().iter().find(|a| is(a)) {
            let ok = match a {
                StunAttribute::MessageIntegrity(x) => stun_rs::get_input_text::<MessageIntegrity>(bytes)
                    .map(|i| x.validate(&i, key))
                    .unwrap_or(false),
                StunAttribute::MessageIntegritySha256(x) => stun_rs::get_input_text::<MessageIntegritySha256>(bytes)
                    .map(|i| x.validate(&i, key))
                    .unwrap_or(false),
                _ => false,
            };
            if ok {
                return (true, "validate()-accepts");
            }
            if outcome == "decode-error" {
                outcome = "validation-fails";
            }
        }
    }
    (false, outcome)
}

fn region(enc: &Encoded, pos: usize, target_idx: usize) -> &'static str {
    if pos < 20 {
        return "header";
    }
    for (i, t) in enc.tlv.iter().enumerate() {
        if pos >= t.hdr_off && pos < t.val_off {
            return if i == target_idx { "own-tlv-header" } else { "earlier-tlv-header" };
        }
        if pos >= t.val_off && pos < t.val_off + t.val_len {
            return if i == target_idx { "mac" } else { "earlier-value" };
        }
        if pos >= t.val_off + t.val_len && pos < t.val_off + t.val_len + t.pad_len {
            return "padding";
        }
    }
    "?"
}

pub fn check_mi(c: &MiCase, st: &mut Stats) -> Result<(), String> {
    let msg = build(c);
    let p = match prepare(&msg) {
        Ok(p) => p,
        Err(e) => {
            // key texts are generated inside the OpaqueString profile: the key constructors must accept them
            if let Err(ke) = conv::lib_key(&c.key) {
                return Err(format!("key constructor refused {:?}: {}", c.key, ke));
            }
            st.class(&format!("rejected-by-constructor:{}", reject_class(&e)));
            return Ok(());
        }
    };
    // (a) key derivation
    let lkey = conv::lib_key(&c.key).map_err(|e| format!("HARNESS-key accepted by prepare but not here: {}", e))?;
    let kb = c.key.key_bytes();
    if lkey.as_bytes() != &kb[..] {
        return Err(format!(
            "key bytes {} differ from the reference derivation {} for {:?}",
            hex(lkey.as_bytes()),
            hex(&kb),
            c.key
        ));
    }
    st.class(match &c.key {
        KeySpec::ShortTerm(_) => "key:short-term",
        KeySpec::LongTerm { alg: 1, .. } => "key:long-term-md5",
        _ => "key:long-term-sha256",
    });
    st.class(tail_name(&p.model.attrs));
    // (b) MAC on the wire equals own HMAC (library encoding == reference encoding is C02; here the MAC itself)
    let reference = ref_encode(&p.model, &mut Noise::zero());
    let bytes = lib_encode(&p.lib, reference.bytes.len(), None).map_err(|e| format!("encode failed: {}", e))?;
    let wire = ref_decode(&bytes).map_err(|e| format!("reference walk of encoder output failed: {:?}", e))?;
    if wire.attrs.len() != p.model.attrs.len() {
        return Err("encoder output has a different number of TLVs".into());
    }
    // the fault walk addresses bytes through the layout of the library's own output (equal to the reference layout
    // on a correct encoder; a different layout is C02's finding, not a reason for this check to lose its footing)
    let own_tlv: Vec<Tlv> = wire
        .attrs
        .iter()
        .map(|a| Tlv { typ: a.typ, hdr_off: a.hdr_off, val_off: a.hdr_off + 4, val_len: a.value.len(), pad_len: a.pad_len })
        .collect();
    let enc = Encoded {
        bytes: bytes.clone(),
        tlv: own_tlv,
        noise_bits: 0,
        noise_set: 0,
    };
    let padded_prefix = c.prefix.iter().any(|a| var_len(a).map(|l| l % 4 != 0).unwrap_or(false));
    let targets: Vec<(usize, u16)> = p
        .model
        .attrs
        .iter()
        .enumerate()
        .filter_map(|(i, a)| match a {
            RAttr::Mi(_) => Some((i, T_MI)),
            RAttr::MiSha256(_) => Some((i, T_MI_SHA256)),
            _ => None,
        })
        .collect();
    for (i, typ) in &targets {
        if !verify_at(&bytes, &wire.attrs[*i], &kb) {
            return Err(format!(
                "{} on the wire is not the RFC HMAC of the prefix with adjusted length under the reference key",
                p.model.attrs[*i].kind_name()
            ));
        }
        // (c)/(f) accepted untampered, also in the presence of the later tail attributes
        let (ok, how) = authenticated(&bytes, *typ, &lkey);
        if !ok || how != "validated-decode-accepts" {
            return Err(format!("untampered message not accepted as authenticated by {:#06x}: {}", typ, how));
        }
    }
    // (e) wrong keys
    for (what, wk) in wrong_keys(&c.key, c.sample_seed) {
        let Ok(wkey) = conv::lib_key(&wk) else { continue };
        if wkey.as_bytes() == lkey.as_bytes() {
            continue;
        }
        for (_, typ) in &targets {
            st.evaluations += 1;
            let (ok, how) = authenticated(&bytes, *typ, &wkey);
            if ok {
                return Err(format!("message accepted as authenticated under a wrong key ({}): {}", what, how));
            }
            st.class(&format!("wrong-key:{}", what));
            if padded_prefix {
                st.nontrivial(&(&msg, what, typ));
            }
        }
    }
    // (d) fault walk over the protected bytes of each integrity attribute
    for (i, typ) in &targets {
        let t = &enc.tlv[*i];
        let end = t.val_off + t.val_len;
        let protected: Vec<usize> = (0..end).filter(|p| *p != 2 && *p != 3).collect();
        let bit_positions: Vec<usize> = if protected.len() <= 200 {
            st.class("fault-walk:exhaustive");
            protected.iter().flat_map(|p| (0..8).map(move |b| p * 8 + b)).collect()
        } else {
            st.class("fault-walk:sampled");
            let mut x = c.sample_seed | 1;
            (0..512)
                .map(|_| {
                    x ^= x << 13;
                    x ^= x >> 7;
                    x ^= x << 17;
                    protected[(x as usize) % protected.len()] * 8 + ((x >> 40) as usize % 8)
                })
                .collect()
        };
        for bp in bit_positions {
            let mut mutated = bytes.clone();
            mutated[bp / 8] ^= 0x80 >> (bp % 8);
            st.evaluations += 1;
            let (ok, how) = match guard(|| authenticated(&mutated, *typ, &lkey)) {
                Guard::Ok(r) => r,
                Guard::LibPanic(_) => (false, "panic-on-damaged-input"),
                Guard::HarnessPanic(m) => return Err(format!("HARNESS-{}", m)),
            };
            if ok {
                return Err(format!(
                    "bit {} of byte {} ({}) flipped and the message is still accepted as authenticated by {:#06x}: {}",
                    bp % 8,
                    bp / 8,
                    region(&enc, bp / 8, *i),
                    typ,
                    how
                ));
            }
            st.class(&format!("fault:{}->{}", region(&enc, bp / 8, *i), how));
            if padded_prefix {
                st.nontrivial(&(&msg, bp, typ));
            }
        }
    }
    // (g) a caller that opts out of the ordering rule (not_ignore) but asks for validation: an integrity attribute that
    // sits behind FINGERPRINT (or MESSAGE-INTEGRITY behind MESSAGE-INTEGRITY-SHA256) is returned to it, so it must have
    // been checked: right key accepted, wrong key and a damaged MAC refused
    if c.sample_seed % 4 == 0 {
        let k = |fault| MacSpec::Keyed { key: c.key.clone(), fault };
        let tails: [Vec<RAttr>; 3] = [
            vec![RAttr::Fp(FpSpec::Computed(Fault::Correct)), RAttr::Mi(k(Fault::Correct))],
            vec![RAttr::Fp(FpSpec::Computed(Fault::Correct)), RAttr::MiSha256(k(Fault::Correct))],
            vec![RAttr::MiSha256(k(Fault::Correct)), RAttr::Mi(k(Fault::Correct))],
        ];
        let tail = &tails[(c.sample_seed / 4 % 3) as usize];
        let mut attrs = c.prefix.clone();
        attrs.extend(tail.iter().cloned());
        let m2 = RMsg { method: c.method, class: c.class, tid: c.tid, attrs };
        if let Ok(p2) = prepare(&m2) {
            let r2 = ref_encode(&p2.model, &mut Noise::zero());
            let b2 = lib_encode(&p2.lib, r2.bytes.len(), None).map_err(|e| format!("encode of an out-of-order tail failed: {}", e))?;
            let opt = |key: &stun_rs::HMACKey| DecOpts { key: Some(key.clone()), validation: true, not_ignore: true, with_ctx: true, ..DecOpts::default() };
            let dec = |b: &[u8], key: &stun_rs::HMACKey| match guard(|| crate::codec::lib_decode(b, &opt(key))) {
                Guard::Ok(r) => r.is_ok(),
                _ => false,
            };
            st.class("opt-out-tail");
            if !dec(&b2, &lkey) {
                return Err("not_ignore + validation: the untampered message with an integrity attribute behind FINGERPRINT / SHA256 is refused under the right key".into());
            }
            for (what, wk) in wrong_keys(&c.key, c.sample_seed) {
                let Ok(wkey) = conv::lib_key(&wk) else { continue };
                if wkey.as_bytes() == lkey.as_bytes() {
                    continue;
                }
                st.evaluations += 1;
                if dec(&b2, &wkey) {
                    return Err(format!("not_ignore + validation: message with an integrity attribute behind FINGERPRINT / SHA256 accepted under a wrong key ({})", what));
                }
            }
            // damage the last MAC (the attribute the ordering rule would have ignored), addressed through the layout of
            // the library's own output
            let Ok(w2) = ref_decode(&b2) else { return Ok(()) };
            let Some(last) = w2.attrs.last() else { return Ok(()) };
            let (val_off, val_len) = (last.hdr_off + 4, last.value.len());
            if val_len < 20 || val_off + val_len > b2.len() {
                return Ok(());
            }
            for bit in [0usize, 7, 8 * (val_len / 2) + 3, 8 * val_len - 1] {
                let mut mb = b2.clone();
                mb[val_off + bit / 8] ^= 0x80 >> (bit % 8);
                st.evaluations += 1;
                if dec(&mb, &lkey) {
                    return Err(format!("not_ignore + validation: bit {} of the MAC behind FINGERPRINT / SHA256 flipped and the message is still accepted", bit));
                }
            }
        }
    }
    if st.wants_sample() && !c.prefix.is_empty() {
        let mut s = sample_msg(&p.model, &bytes);
        s["key"] = json!(format!("{:?}", c.key));
        st.sample(s);
    }
    Ok(())
}

pub fn run(ctx: &Ctx) -> RunResult {
    let mut rr = RunResult::new(RULE);
    rr.level = "fault_enumeration".into();
    rr.assumptions = vec![
        "'accepted as authenticated' = validated decode succeeds and returns the integrity attribute, or the attribute's validate() over get_input_text returns true".into(),
        "cryptographic collisions are ignored".into(),
        "key strings come from OpaqueString-stable alphabets (self-tested against precis-profiles)".into(),
    ];
    rr.absorb(run_prop(ctx, "integrity", ctx.pick(8_000, 100_000), arb_case, |c, st| check_mi(c, st)));
    rr
}

pub fn replay(_ctx: &Ctx, check: &str, case: &Value) -> Result<(), String> {
    let mut st = Stats::default();
    match check {
        "integrity" => {
            let c: MiCase = serde_json::from_value(case.clone()).map_err(|e| format!("HARNESS-bad case: {}", e))?;
            guard_str(|| check_mi(&c, &mut st))?
        }
        _ => Err(format!("HARNESS-unknown check {}", check)),
    }
}
