//! C11 — timer notifications are accurate and sufficient for every request to finish.
use super::hist::*;
use crate::report::*;
use crate::sim::hgen::HistOpts;
#[allow(unused_imports)]
use crate::sim::*;
use serde_json::Value;

pub fn prop() -> HistProp {
    HistProp {
        focus: &["C11"],
        opts: HistOpts { max_ops: 40, timer_weight: 7, hostile: 1, ..HistOpts::default() },
        drain: true,
        quick: 150_000,
        thorough: 2_000_000,
        rule: "operation histories generated as one value (sends with application attributes, indications, clock advances, timer calls exact/early/late, replies to outstanding/finished/unknown ids with every authentication and fingerprint variant, 401/438 challenges, garbage and mutated buffers) run against a real client and the reference tracker in lock-step under a virtual clock; after every send_request and on_timeout a notification must exist exactly when a request is awaiting, name a request with the earliest pending deadline (the model's deadlines; hook: an awaiting request has a timer entry) and give max(0, deadline-now) to the nanosecond; at the end a simulated controller that only follows notifications (armed, replaced by newer ones, fired late by generated amounts) must see every request reach a final outcome no later than its first call at or after the request's deadline and be left without timers; non-trivial = at least 2 requests outstanding together (interleaved deadlines); distinct = hash of the history",
        assumptions: &["pending deadlines are the model's (next unused RFC slot or final deadline per awaiting request); the hook only shows whether an awaiting request still has a timer entry"],
        nontrivial: |_, s| s.max_concurrency >= 2,
    }
}
pub fn run(ctx: &Ctx) -> RunResult {
    super::hist::run(ctx, &prop())
}
pub fn replay(ctx: &Ctx, check: &str, case: &Value) -> Result<(), String> {
    super::hist::replay(ctx, &prop(), check, case)
}
